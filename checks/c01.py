''' C01 - TCPCL delivers every queued bundle exactly once, intact and in order.

Two real ContactHandler endpoints over in-memory pipes; bundle lengths, the sender's initial
segment size and the receiver's segment MRU are symbolic in [0|1, 2^64); bundle contents are
opaque blobs with provenance.  Obligations at quiescence, per direction. '''
from vf.engine import Ctx, cur, Cut, is_sym, blen, same_bytes, smin
from checks.tcpcl_common import *

MANIFEST = {'text': 'Bounded symbolic model checking: two real ContactHandler endpoints run on symbolic bundle lengths, segment sizes and MRUs (all in [0|1,2^64)) with opaque payloads through the real codec; every feasible path within the bounds is explored and each delivery/ordering/success obligation is discharged by z3 for all values on the path; counterexamples are replayed concretely.', 'note': 'Trusted: engine (vf/), stand-ins for dbus/GLib/sockets, z3. Bounds: bundles per direction, segments per bundle, scheduler deviations, CHUNK_SIZE lifted in most cases (evidence.coverage.bounds).', 'ref': '5 C01'}
BOUNDS = {
    'quick': dict(bundles='A->B in {1,2}, B->A in {0,1}', segments_per_bundle='bounded by scheduler steps (<= ~4)',
                  sched_steps=160, sched_deviations=0, chunk='CHUNK_SIZE lifted to 2^72 (whole-buffer pumps) '
                  'plus one real-CHUNK_SIZE case with lengths <= 25000'),
    'thorough': dict(bundles='A->B in {1,2,3}, B->A in {0,1}', sched_steps=260, sched_deviations=1,
                     chunk='as quick; real-CHUNK_SIZE cases with lengths <= 25000'),
}
ASSUMPTIONS = [
    'lengths, segment sizes and MRUs range over [0|1, 2^64) as mathematical integers',
    'TCP is a reliable in-order byte pipe; sockets never fail mid-transfer; no TLS',
    'ACK options at repository defaults; modulate_target_ack_time off (C14 covers it)',
    'in "big" cases Connection.CHUNK_SIZE is overridden on the instances to 2^72 so that one pump moves the '
    'whole buffer; chunk-boundary behaviour is covered by the "real" cases (bounded lengths) and by C07',
    'schedules: lowest-source-id-first order with up to sched_deviations arbitrary deviations',
    'back-pressure cases: the first two socket sends of A after establishment accept 1, n/2 or n-1 of the n octets offered',
]
MAX_PATHS = {'quick': 20000, 'thorough': 60000}
CASE_SECONDS = {'quick': 240, 'thorough': 3000}
SMALL_LIMIT = 30000          # real-CHUNK_SIZE cases need lengths above 10240 to be replayable
REQUIRED_CLASSES = {'all': ['one-seg', 'multi-seg']}
QUICK_VALIDATE = 8


def cases(tier):
    out = []
    for na in ((1, 2) if tier == 'quick' else (1, 2, 3)):
        for nb in (0, 1):
            if na == 3 and nb == 1:
                continue
            k = (3 if na + nb <= 2 else 2) if tier == 'quick' else (4 if na + nb <= 2 else 3)
            out.append(dict(na=na, nb=nb, chunk='big', dev=0, kseg=k, steps=400))
    out.append(dict(na=1, nb=0, chunk='real', dev=0, kseg=2, steps=400))
    out.append(dict(na=1, nb=0, chunk='real', dev=0, kseg=1, steps=600, bp=2))
    # back-pressure: the socket accepts only part of what is offered on the first sends after establishment
    out.append(dict(na=1, nb=0, chunk='big', dev=0, kseg=2, steps=400, bp=2))
    out.append(dict(na=1, nb=1, chunk='big', dev=0, kseg=2, steps=400, bp=1, rx='msg'))
    if tier == 'thorough':
        out.append(dict(na=1, nb=1, chunk='big', dev=1, kseg=2, steps=400))
        out.append(dict(na=2, nb=0, chunk='big', dev=1, kseg=1, steps=400))
        out.append(dict(na=1, nb=1, chunk='real', dev=0, kseg=2, steps=600))
    return out


def harness(case, tier):
    c = cur()
    real = case['chunk'] == 'real'
    hi = 25000 if real else 2 ** 64 - 1
    s_a = c.sym_int('segA', 1, 2 ** 64 - 1, size=True)
    s_b = c.sym_int('segB', 1, 2 ** 64 - 1, size=True)
    mru_a = c.sym_int('mruA', 1, 2 ** 64 - 1, size=True)
    mru_b = c.sym_int('mruB', 1, 2 ** 64 - 1, size=True)
    w = World(mkcfg('dtn://a/', segment_size_tx_initial=s_a, segment_size_mru=mru_a),
              mkcfg('dtn://b/', segment_size_tx_initial=s_b, segment_size_mru=mru_b))
    if not real:
        w.a.CHUNK_SIZE = w.b.CHUNK_SIZE = BIG
    ok = establish(w)
    c.prove(ok, 'established')
    if not ok:
        return dict(cls='not-established')
    if case.get('rx'):
        w.sock_a.recv_policy = w.sock_b.recv_policy = case['rx']
    if case.get('bp'):
        left = [case['bp']]

        def short_write(sock, n):
            # accept 1 octet, half, or all but one of what is offered (every option explored)
            if left[0] <= 0 or not bool(n >= 2):
                return n
            left[0] -= 1
            k = c.choose(3, 'short-write')
            return [1, n // 2, n - 1][k]
        w.sock_a.send_limit = short_write

    plan = []
    for i in range(case['na']):
        plan.append(('A', i))
    for i in range(case['nb']):
        plan.append(('B', i))
    sent = {'A': [], 'B': []}
    for (side, i) in plan:
        ln = c.sym_int('len%s%d' % (side, i), 0, hi, size=True)
        seg = smin(s_a, mru_b) if side == 'A' else smin(s_b, mru_a)
        c.assume(ln <= case['kseg'] * seg)
        data = c.sym_blob('bundle%s%d' % (side, i), ln)
        h = w.a if side == 'A' else w.b
        tid = h.send_bundle_fileobj(BytesIO(data))
        sent[side].append((tid, ln, data))
        if case['dev']:
            # let protocol progress interleave with the user's send calls
            n = c.choose(3, 'progress-between-sends')
            for _ in range(n * 4):
                en = w.enabled()
                if not en:
                    break
                w.dispatch(en[0])
    w.run(case['steps'], choose_budget=case['dev'])

    c.prove(not w.escaped(), 'no-callback-exception', detail=[repr(e) for (_s, e) in w.escaped()])
    multi = False
    for (side, tx, rx) in (('A', w.a, w.b), ('B', w.b, w.a)):
        items = sent[side]
        queue = list(rx.recv_bundle_get_queue())
        fin_tx = sig_index('send_bundle_finished', tx)
        fin_rx = sig_index('recv_bundle_finished', rx)
        c.prove(len(queue) == len(items), 'queue-count[%s]' % tag_lens(c, items),
                detail=dict(side=side, queue=queue, lens=[l for (_t, l, _d) in items]))
        for k, (tid, ln, data) in enumerate(items):
            z = 'len=0' if c.must(ln == 0) else 'len>0'
            if k < len(queue):
                got = rx.recv_bundle_pop_data(queue[k])
                c.prove(same_bytes(got, data), 'intact-in-order[%s]' % z, detail=dict(side=side, k=k, got=got))
            # exactly one success for this transfer, after the receiver finished it
            mine = [(ix, a) for (ix, a) in fin_tx if a[0] == str(tid)]
            c.prove(len(mine) == 1, 'one-finished-signal[%s]' % z, detail=dict(side=side, k=k, signals=mine))
            if len(mine) == 1 and k < len(fin_rx):
                (ix, a) = mine[0]
                c.prove(a[2] == 'success', 'finished-success[%s]' % z, detail=a)
                c.prove(a[1] == ln, 'finished-length[%s]' % z, detail=a)
                c.prove(fin_rx[k][0] < ix, 'success-after-receiver-complete')
                c.prove(fin_rx[k][1][1] == ln, 'receiver-length[%s]' % z)
            nseg = [m for m in w.log if m[0] == side and m[2] == '_process_queue']
            if len(nseg) > len(items) + 1:
                multi = True
        # nothing left pending
        c.prove(not list(tx.send_bundle_get_queue()), 'send-queue-drained[%s]' % tag_lens(c, items),
                detail=list(tx.send_bundle_get_queue()))
    return {'class': 'multi-seg' if multi else 'one-seg',
            'queues': [list(w.a.recv_bundle_get_queue()), list(w.b.recv_bundle_get_queue())],
            'signals': [(n, a) for (n, a) in w.signals() if n.endswith('finished')],
            'wire': [w.ab.total, w.ba.total]}


def tag_lens(c, items):
    return 'some-len=0' if any(c.must(l == 0) for (_t, l, _d) in items) else 'all-len>0'
