''' C02 - BPv7 bundle encoding round-trips and is RFC 9171 well-formed.

Bundles are built with the repository's classes from symbolic field values (and, in the other direction, encoded
by the independent RFC 9171 writer), encoded, decoded and re-encoded; an independent reader checks the structure. '''
from vf.engine import cur, blen, same_bytes, is_sym
from vf.oracle import rfc9171
from vf import rt, symcbor

MANIFEST = {
    'text': 'Bounded symbolic model checking of the real scapy_cbor / bp.encoding build and dissect code: lifetime, '
            'creation time, sequence number, fragment offset / total length, block numbers, hop limit/count, age, '
            'unknown block type and data, status-report times are symbolic (each path covers a whole CBOR head-size '
            'class of every symbolic field); flags, EIDs (dtn:, ipn:, dtn:none), CRC types and block shapes are '
            'enumerated.  Obligations: decode(encode(b)) has the same field values, encode(decode(x)) == x for x from '
            'the implementation and from an independent RFC 9171 writer, the two writers agree octet for octet, and '
            'the independent reader accepts the structure (indefinite array, primary 8..11 items, canonical 5/6 '
            'items, payload last).',
    'note': 'Trusted: engine, vf.symcbor (validated against cbor2 on concretely replayed paths), independent '
            'reader/writer, z3. CRC values are uninterpreted here (C08). Datetime-typed inputs (float path) are not '
            'covered.',
    'ref': '5 C02'}
BOUNDS = {'quick': dict(ext_blocks='0..2 from {previous-node, age, hop-count, unknown}', eids='9 fixed EIDs (dtn: with and without demux, with ? # and : in the demux, dtn:none, ~multicast, ipn:)',
                        flags='7 flag sets incl. fragment and admin-record', crc='{0,1,2}',
                        admin='status report alone | next to prev+hop | next to an unknown block; about a whole bundle | about a fragment (symbolic offset from 0 and length)'),
          'thorough': dict(ext_blocks='0..3', eids='9 fixed EIDs (dtn: with and without demux, with ? # and : in the demux, dtn:none, ~multicast, ipn:)', flags='12 flag sets', crc='all combinations')}
ASSUMPTIONS = [
    'EIDs from a fixed list (text handling is concrete); uint fields in [0, 2^64)',
    'times given as integers (DTN time), not datetime objects',
]
REQUIRED_CLASSES = {'all': ['plain', 'fragment', 'admin']}
QUICK_VALIDATE = 3
MAX_PATHS = {'quick': 20000, 'thorough': 200000}

EIDS = ['dtn://node/svc', 'dtn://n/', 'dtn:none', 'ipn:1.2', 'ipn:0.0', 'dtn:~mcast/x', 'dtn://n/a?b=1#c', 'dtn://n/?', 'dtn://n/urn:x:7']
SHAPES = ['payload', 'prev', 'age', 'hop', 'unknown', 'prev+hop', 'age+unknown', 'hop+hop']


OTHER_CONTENT = [0, False, '', b'', [], {}, 7, [1, 2], 'text', b'\x01\x02', None]
WIDE_SETS = ['lifetime+dtntime+seqno', 'P+foff+ftotal', 'age+lim+cnt', 'lifetime+P+st_time', 'seqno+foff+age']


def cases(tier):
    # at most three uint fields range over all CBOR head classes at once; the others stay symbolic below 24
    out = []
    for i, shape in enumerate(SHAPES):
        for kind in ('plain', 'fragment'):
            for j, wide in enumerate(WIDE_SETS):
                if tier == 'quick' and (i * 2 + j + (kind == 'fragment')) % 7:
                    continue
                out.append(dict(kind=kind, shape=shape, crc=(i + j) % 3, eid=(i + j) % 9, wide=wide))
    # status reports: alone and next to extension blocks (as forwarded by a node that adds blocks); about a whole
    # bundle and about a fragment (offset symbolic from 0)
    for crc in (0, 2):
        for shape in ('payload', 'prev+hop', 'unknown'):
            for subj in ('whole', 'fragment'):
                if tier == 'quick' and shape != 'payload' and (crc == 0) != (subj == 'fragment'):
                    continue
                out.append(dict(kind='admin', shape=shape, crc=crc, eid=1, subj=subj,
                                wide='lifetime+P+st_time' if subj == 'whole' else 'st_time+sfoff+slen'))
    # administrative records of other types: the content is an arbitrary CBOR item kept as it is
    out.append(dict(kind='admin', shape='payload', crc=2, eid=1, subj='other', wide='lifetime+P+st_time'))
    return out


def build_inputs(c, case, tier):
    ''' Field values shared by both writers. '''
    wset = set(case['wide'].split('+'))

    def rng(name, hi):
        # (of two blocks of the same kind only the first one gets the wide range)
        return c.sym_int(name, 0, hi if (name.rstrip('0123456789') in wset and not name.endswith('3')) else 23)
    frag = case['kind'] == 'fragment'
    admin = case['kind'] == 'admin'
    e0 = case['eid']
    flags = (1 if frag else 0) | (2 if admin else 0) | [0, 4, 0x20, 0x44000][c.choose(4, 'flags')]
    ne = len(EIDS)
    p = dict(version=7, flags=flags, crc_type=case['crc'], destination=EIDS[e0 % ne], source=EIDS[(e0 + 3) % ne],
             report_to=EIDS[(e0 + 2) % ne], lifetime=rng('lifetime', 2 ** 64 - 1),
             create_ts=[rng('dtntime', 2 ** 64 - 1), rng('seqno', 2 ** 64 - 1)])
    if frag:
        p['fragment_offset'] = rng('foff', 2 ** 64 - 1)
        p['total_adu_length'] = rng('ftotal', 2 ** 64 - 1)
    blocks = []
    num = 2
    for name in [x for x in case['shape'].split('+') if x != 'payload']:
        bn = c.sym_int('bnum%d' % num, 2, 23)
        for b in blocks:
            c.assume(bn != b['num'])
        if name == 'prev':
            blocks.append(dict(type=6, num=bn, flags=0, crc_type=case['crc'], data=rfc9171.enc(rfc9171.eid_cbor(EIDS[0])), kind=name))
        elif name == 'age':
            v = rng('age%d' % num, 2 ** 64 - 1)
            blocks.append(dict(type=7, num=bn, flags=1, crc_type=case['crc'], data=rfc9171.enc(v), kind=name, vals=[v]))
        elif name == 'hop':
            lim, cnt = rng('lim%d' % num, 2 ** 64 - 1), rng('cnt%d' % num, 2 ** 64 - 1)
            blocks.append(dict(type=10, num=bn, flags=0, crc_type=case['crc'], data=rfc9171.enc([lim, cnt]), kind=name, vals=[lim, cnt]))
        elif name == 'unknown':
            t = c.sym_int('utype%d' % num, 192, 255)
            blocks.append(dict(type=t, num=bn, flags=0x10, crc_type=case['crc'], data=c.sym_bytes('ublk%d' % num, 4), kind=name))
        num += 1
    if admin and case.get('subj') == 'other':
        rtype = c.sym_int('rtype', 2, 23)
        content = OTHER_CONTENT[c.choose(len(OTHER_CONTENT), 'record-content')]
        rec = [rtype, content]
        blocks.append(dict(type=1, num=1, flags=0, crc_type=case['crc'], data=rfc9171.enc(rec), kind='admin-other', rec=rec))
    elif admin:
        t1 = c.sym_int('st_time', 1, 2 ** 64 - 1 if 'st_time' in wset else 23)
        # reason codes: assigned ones (incl. 11, "block unsupported"), a BPSec one, unassigned ones
        reason = [5, 0, 11, 15, 17, 255][c.choose(6, 'reason-code')] if (case['shape'] == 'payload' and case.get('subj') == 'whole') else 5
        rec = [1, [[[True, t1], [False], [True, t1], [False]], reason,
                   rfc9171.eid_cbor(EIDS[0]), [p['create_ts'][0], 7]]]
        sub = None
        if case.get('subj') == 'fragment':
            sub = [rng('sfoff', 2 ** 64 - 1), rng('slen', 2 ** 64 - 1)]
            rec[1].extend(sub)
        data = rfc9171.enc(rec)
        blocks.append(dict(type=1, num=1, flags=0, crc_type=case['crc'], data=data, kind='admin', rec=rec, t1=t1, sub=sub, reason=reason))
    else:
        n = c.sym_int('P', 0, 2 ** 32 if 'P' in wset else 23, size=True)
        blocks.append(dict(type=1, num=1, flags=0, crc_type=case['crc'], data=c.sym_blob('payload', n), kind='payload'))
    return p, blocks


def impl_bundle(p, blocks):
    ''' The same bundle through the repository's classes. '''
    from bp.encoding import (Bundle, PrimaryBlock, CanonicalBlock, Timestamp, PreviousNodeBlock, BundleAgeBlock,
                             HopCountBlock, AdminRecord, StatusReport, StatusInfoArray, StatusInfo)
    kw = dict(bp_version=7, bundle_flags=p['flags'], crc_type=p['crc_type'], destination=p['destination'], source=p['source'],
              report_to=p['report_to'], create_ts=Timestamp(dtntime=p['create_ts'][0], seqno=p['create_ts'][1]),
              lifetime=p['lifetime'])
    if 'fragment_offset' in p:
        kw['fragment_offset'] = p['fragment_offset']
        kw['total_app_data_len'] = p['total_adu_length']
    bl = []
    for b in blocks:
        cb = CanonicalBlock(type_code=b['type'], block_num=b['num'], block_flags=b['flags'], crc_type=b['crc_type'])
        if b['kind'] == 'prev':
            cb = cb / PreviousNodeBlock(node=EIDS[0])
        elif b['kind'] == 'age':
            cb = cb / BundleAgeBlock(age=b['vals'][0])
        elif b['kind'] == 'hop':
            cb = cb / HopCountBlock(limit=b['vals'][0], count=b['vals'][1])
        elif b['kind'] == 'admin-other':
            from scapy_cbor.packets import CborItem
            cb = cb / AdminRecord(type_code=b['rec'][0]) / CborItem(item=b['rec'][1])
        elif b['kind'] == 'admin':
            t1 = b['t1']
            skw = dict()
            if b['sub'] is not None:
                skw = dict(fragment_offset=b['sub'][0], payload_len=b['sub'][1])
            sr = StatusReport(status=StatusInfoArray(received=StatusInfo(status=True, at=t1), forwarded=StatusInfo(status=False),
                                                     delivered=StatusInfo(status=True, at=t1), deleted=StatusInfo(status=False)),
                              reason_code=b['reason'], subj_source=EIDS[0], subj_ts=Timestamp(dtntime=p['create_ts'][0], seqno=7), **skw)
            cb = cb / AdminRecord() / sr
        else:
            cb.setfieldval('btsd', b['data'])
        bl.append(cb)
    bundle = Bundle(primary=PrimaryBlock(**kw), blocks=bl)
    return bundle


def harness(case, tier):
    c = cur()
    from bp.encoding import Bundle
    p, blocks = build_inputs(c, case, tier)
    try:
        b1 = impl_bundle(p, blocks)
        b1.fill_fields()
        b1.update_all_crc()
        octets = rt.b_bytes(b1)
    except Exception as err:
        c.prove(False, 'encoder-accepts-wellformed-values', detail=repr(err))
        return {'class': case['kind']}
    # (c) structure, by the independent reader; field values as the reader sees them
    try:
        r = rfc9171.decode_bundle(octets)
    except rfc9171.Malformed as err:
        c.prove(False, 'structure:independent-reader-accepts', detail=str(err))
        return {'class': case['kind']}
    c.prove(bool(r['blocks'][-1]['type'] == 1), 'structure:payload-block-last')
    rp = r['primary']
    c.prove(rp['flags'] == p['flags'] and rp['lifetime'] == p['lifetime'] and rp['crc_type'] == p['crc_type'],
            'reader:primary-scalars', detail=dict(flags=rp['flags'], lifetime=rp['lifetime']))
    c.prove(rp['create_ts'][0] == p['create_ts'][0] and rp['create_ts'][1] == p['create_ts'][1], 'reader:timestamp')
    for k in ('destination', 'source', 'report_to'):
        c.prove(rfc9171.eid_text(rp[k]) == (p[k] or 'dtn:none'), 'reader:eid[%s]' % k, detail=dict(got=rp[k], want=p[k]))
    if 'fragment_offset' in p:
        c.prove(rp.get('fragment_offset') == p['fragment_offset'] and rp.get('total_adu_length') == p['total_adu_length'],
                'reader:fragment-fields')
    c.prove(len(r['blocks']) == len(blocks), 'reader:block-count')
    for rb, b in zip(r['blocks'], blocks):
        c.prove(rb['type'] == b['type'] and rb['num'] == b['num'] and rb['flags'] == b['flags'] and rb['crc_type'] == b['crc_type'],
                'reader:block-header[%s]' % b['kind'], detail=dict(got=(rb['type'], rb['num'], rb['flags']), kind=b['kind']))
        c.prove(same_bytes(rb['data'], b['data']), 'reader:block-data[%s]' % b['kind'], detail=dict(got=rb['data'], want=b['data']))
    # (a) decode(encode(b)) == b and encode(decode(x)) == x
    try:
        b2 = Bundle(octets)
    except Exception as err:
        c.prove(False, 'roundtrip:decoder-accepts-own-encoding', detail=repr(err))
        return {'class': case['kind']}
    for name in ('bp_version', 'bundle_flags', 'crc_type', 'destination', 'source', 'report_to', 'lifetime'):
        v1, v2 = b1.primary.getfieldval(name), b2.primary.getfieldval(name)
        c.prove(eqv(v1, v2), 'roundtrip:primary[%s]' % name, detail=dict(a=v1, b=v2))
    for name in ('dtntime', 'seqno'):
        c.prove(eqv(b1.primary.create_ts.getfieldval(name), b2.primary.create_ts.getfieldval(name)), 'roundtrip:timestamp[%s]' % name)
    if 'fragment_offset' in p:
        for name in ('fragment_offset', 'total_app_data_len'):
            c.prove(eqv(b1.primary.getfieldval(name), b2.primary.getfieldval(name)), 'roundtrip:primary[%s]' % name)
    c.prove(len(b2.blocks) == len(b1.blocks), 'roundtrip:block-count')
    for x, y, b in zip(b1.blocks, b2.blocks, blocks):
        for name in ('type_code', 'block_num', 'block_flags', 'crc_type'):
            c.prove(eqv(x.getfieldval(name), y.getfieldval(name)), 'roundtrip:block[%s,%s]' % (b['kind'], name))
        c.prove(same_bytes(x.getfieldval('btsd'), y.getfieldval('btsd')), 'roundtrip:block-data[%s]' % b['kind'])
        c.prove(type(x.payload).__name__ == type(y.payload).__name__ or b['kind'] in ('payload', 'unknown'),
                'roundtrip:block-payload-class[%s]' % b['kind'], detail=(type(x.payload).__name__, type(y.payload).__name__))
        if b['kind'] == 'hop':
            c.prove(eqv(y.payload.limit, b['vals'][0]) and eqv(y.payload.count, b['vals'][1]), 'roundtrip:hop-count-values')
        if b['kind'] == 'age':
            c.prove(eqv(y.payload.age, b['vals'][0]), 'roundtrip:age-value')
        if b['kind'] == 'admin':
            sr = y.payload.payload
            c.prove(type(sr).__name__ == 'StatusReport', 'roundtrip:admin-record-class', detail=type(sr).__name__)
            if type(sr).__name__ == 'StatusReport':
                c.prove(eqv(sr.status.received.getfieldval('at'), b['t1']) and bool(sr.status.received.status) is True,
                        'roundtrip:status-time')
                c.prove(sr.status.forwarded.getfieldval('at') is None, 'roundtrip:absent-status-time-stays-absent')
                if b['sub'] is not None:
                    fo, pl = sr.getfieldval('fragment_offset'), sr.getfieldval('payload_len')
                    c.prove(fo is not None and pl is not None and eqv(fo, b['sub'][0]) and eqv(pl, b['sub'][1]),
                            'roundtrip:status-subject-fragment-fields', detail=dict(offset=fo, length=pl))
                else:
                    c.prove(sr.getfieldval('fragment_offset') is None and sr.getfieldval('payload_len') is None,
                            'roundtrip:status-subject-fragment-fields-absent')
    c.prove(same_bytes(rt.b_bytes(b2), octets), 'roundtrip:reencode-decoded-equals-original', detail=dict(again=rt.b_bytes(b2), orig=octets))
    # (b) the independent writer: same octets; implementation decodes and re-encodes them unchanged
    x = rfc9171.sealed_bundle(p, blocks)
    c.prove(same_bytes(x, octets), 'writers-agree', detail=dict(impl=octets, independent=x))
    try:
        b3 = Bundle(x)
    except Exception as err:
        c.prove(False, 'roundtrip:decoder-accepts-independent-encoding', detail=repr(err))
        return {'class': case['kind']}
    c.prove(same_bytes(rt.b_bytes(b3), x), 'roundtrip:reencode-independent-encoding', detail=dict(again=rt.b_bytes(b3), orig=x))
    return {'class': case['kind'], 'size': blen(octets)}


def eqv(a, b):
    ''' Field value equality tolerant of enum / flag wrappers. '''
    a = getattr(a, 'value', a) if not is_sym(a) else a
    b = getattr(b, 'value', b) if not is_sym(b) else b
    return a == b
