''' C03 - A COSE integrity block verifies iff nothing it covers was altered.

A source agent applies a BIB through the real transmit chain (apply_bib, external AAD construction, COSE message
with detached payload); the transmitted octets are altered in one place and received by a second real agent
(decode, verify_bib / verify_bib_target / decode_msg re-attaching the payload, key selection by kid).  pycose's
message classes run as they are over ideal primitives (vf/idealcose.py): a MAC verifies iff it was issued for the
same key and the same to-be-MACed octets, so "fails after any change to covered content" is decided by the solver
over symbolic content and symbolic alterations. '''
import re
from vf.engine import cur, blen, same_bytes, is_sym, SBuf, Lit, SInt
from vf.oracle import rfc9171
from vf import symcbor, idealcose
from vf.bpenv import BpWorld

MANIFEST = {
    'text': 'Bounded symbolic model checking of BIB apply/verify under ideal cryptography beneath the real pycose: '
            'target block data, lifetime, creation time are symbolic; the to-be-MACed octets are compared with an '
            'independent construction of the external AAD; the alteration is a symbolic change (any other value) of '
            'one item: target data octet, primary-block field, target block flags, security source, the COSE '
            'protected header, the tag, an unrelated block outside the scope, the BIB block flags, the receiver key, '
            'or the original content moved into the COSE payload slot with the target rewritten; one or two '
            'targets per BIB; message kind COSE_Mac0.  Obligation: delivered <=> the altered item is outside the '
            'declared scope (and the key is right); otherwise the bundle is deleted with a security reason.',
    'note': 'Trusted: engine, vf.symcbor, the ideal-primitive layer under pycose (HMAC / AES-KW strength assumed), '
            'independent reader/writer used to alter the wire, z3.  COSE_Sign1 / x5chain key selection is outside '
            'the claim (certificate path validation cannot run here).',
    'ref': '5 C03'}
BOUNDS = {'quick': dict(message_kinds='MAC0', target_data='4 symbolic octets', alterations=13, targets='1 (payload) | 2 (payload + extension block)'),
          'thorough': dict(message_kinds='MAC0', target_data='12 symbolic octets', alterations=13, targets='1 | 2')}
ASSUMPTIONS = [
    'ideal MAC / key wrap: verification succeeds iff same key and identical to-be-MACed octets',
    'AAD scope as produced by the source (primary block and target metadata); one or two targets',
    'COSE_Sign1 and certificate-based key selection not covered; COSE_Mac with key wrap fails inside pycose 1.1.0 itself '
    '(HMAC classes have no get_key_length), as the repository\'s own test expects',
]
REQUIRED_CLASSES = {'all': ['verified', 'rejected']}
QUICK_VALIDATE = 3
QTIMEOUT_MS = {'quick': 30000, 'thorough': 60000}

ALTER = ['none', 'payload-octet', 'lifetime', 'timestamp', 'destination', 'target-flags', 'sec-source', 'protected-header',
         'tag', 'unrelated-block', 'wrong-key', 'bib-block-flags']
IN_SCOPE = {'second-target-number', 'bib-target-entry', 'attached-payload', 'payload-octet', 'lifetime', 'timestamp', 'destination', 'target-flags', 'sec-source', 'protected-header', 'tag',
            'wrong-key'}


def cases(tier):
    out = []
    # (COSE_Mac with a wrapped key cannot be produced with pycose 1.1.0: HMAC algorithms lack get_key_length)
    for kind in ('mac0',):
        for alt in ALTER:
            out.append(dict(kind=kind, alter=alt))
    # one BIB over two targets (payload and an extension block): altering either target must fail
    for alt in (('none', 'payload-octet', 'unrelated-block') if tier == 'quick' else ALTER + ['attached-payload']):
        out.append(dict(kind='mac0', alter=alt, targets=2))
    # the target cannot be found any more: its block number, or the BIB's target entry, now names no block
    out.append(dict(kind='mac0', alter='second-target-number', targets=2))
    out.append(dict(kind='mac0', alter='bib-target-entry', targets=2))
    out.append(dict(kind='mac0', alter='bib-target-entry'))
    # the original target content moved into the COSE message's payload slot, target block rewritten
    out.append(dict(kind='mac0', alter='attached-payload'))
    # receiver side on its own: BIBs built independently (ideal tag over the independently constructed AAD) with
    # other AAD scopes, the default scope (parameter absent) and the key id in the additional protected parameter
    for scope in RX_SCOPES:
        for alt in RX_ALTER:
            if tier == 'quick' and alt in ('other-flags', 'timestamp') and scope not in ('p+t+o3', 'default'):
                continue
            # (default scope = parameter 5 absent; the key id then travels in the additional protected parameter so
            #  that the parameter list is not empty: a security block without any parameter is not verifiable by
            #  this implementation at all - TypeError inside check_secblk, failing closed - see DESIGN.md)
            out.append(dict(kind='rx', scope=scope, alter=alt, **(dict(addl=True) if scope == 'default' else {})))
    for alt in ('none', 'addl-protected', 'lifetime'):
        out.append(dict(kind='rx', scope='p+t', alter=alt, addl=True))
    return out


RX_SCOPES = {'p+t': {0: 1, -1: 1}, 't': {-1: 1}, 'p': {0: 1}, 'empty': {}, 'p+t+o1': {0: 1, -1: 1, 4: 1},
             'p+t+o2': {0: 1, -1: 1, 4: 2}, 'p+t+o3': {0: 1, -1: 1, 4: 3}, 'p+t+s': {0: 1, -1: 1, -2: 1}, 'default': None}
RX_ALTER = ['none', 'payload-octet', 'lifetime', 'timestamp', 'target-flags', 'other-data', 'other-flags', 'bib-block-flags']


def rx_covered(scope, alt):
    ''' Is the altered item covered by the tag under this scope?  (Independent reading of the draft.) '''
    if scope is None:
        scope = {0: 1, -1: 1, -2: 1}
    if alt == 'none':
        return False
    if alt in ('payload-octet', 'addl-protected'):
        return True
    if alt in ('lifetime', 'timestamp'):
        return bool(scope.get(0, 0) & 1)
    if alt == 'target-flags':
        return bool(scope.get(-1, 0) & 1)
    if alt == 'other-data':
        return bool(scope.get(4, 0) & 2)
    if alt == 'other-flags':
        return bool(scope.get(4, 0) & 1)
    if alt == 'bib-block-flags':
        return bool(scope.get(-2, 0) & 1)
    raise KeyError(alt)


def h_rx(c, case, tier):
    ''' The receiving side alone. '''
    alt = case['alter']
    scope = RX_SCOPES[case['scope']]
    n = 4 if tier == 'quick' else 12
    key, _extra = keys('mac0')
    data = c.sym_bytes('pay', n)
    life = c.sym_int('lifetime', 2 ** 32, 2 ** 40)
    ts = c.sym_int('dtntime', 2 ** 32, 2 ** 39)
    pri = dict(flags=0, crc_type=2, destination='dtn://dst/app', source='dtn://src/app', report_to='dtn:none',
               create_ts=[ts, 3], lifetime=life, version=7)
    oth = dict(type=192, num=4, flags=0, crc_type=0, data=c.sym_bytes('other', 2))
    pay = dict(type=1, num=1, flags=0, crc_type=2, data=data)
    bib = dict(type=11, num=3, flags=0, crc_type=0, data=b'')
    source = [1, '//src/']
    addl = rfc9171.enc({4: key.kid}) if case.get('addl') else b''
    # what the source authenticates: computed from a reading of the bundle as it is sent
    sent = rfc9171.decode_bundle(rfc9171.sealed_bundle(pri, [dict(bib, data=b'\x00'), oth, pay]))
    eff = scope if scope is not None else {0: 1, -1: 1, -2: 1}
    aad = rfc9171.bpsec_cose_aad(sent, source, eff, pay, addl_protected=addl, secblk=bib)
    phdr = symcbor._real.dumps({1: 5})                       # HMAC 256/256
    tok = idealcose._token('M', len(idealcose._entries()), 32)
    idealcose._entries().append(dict(kind='mac', key=idealcose._keybytes(key), token=tok,
                                     data=rfc9171.enc(['MAC0', phdr, aad, data])))
    uhdr = {} if case.get('addl') else {4: key.kid}

    def secblock(addl_now):
        params = []
        if addl_now:
            params.append([3, addl_now])
        if scope is not None:
            params.append([5, scope])
        msg = rfc9171.enc([phdr, uhdr, None, tok])
        e = rfc9171.enc
        out = e([1]) + e(3) + e(1 if params else 0) + e(source)
        if params:
            out = out + e(params)
        return out + e([[[17, msg]]])

    def other_value(name, old, lo, hi):
        v = c.sym_int(name, lo, hi)
        c.assume(v != old)
        return v
    addl_now = addl
    if alt == 'payload-octet':
        items = list(SBuf.of(data)[0].items)
        i = c.choose(len(items), 'octet')
        items[i] = other_value('newoctet', items[i], 0, 255)
        pay['data'] = SBuf.mk([Lit(items)])
    elif alt == 'lifetime':
        pri['lifetime'] = other_value('newlife', life, 2 ** 32, 2 ** 40)
    elif alt == 'timestamp':
        pri['create_ts'][0] = other_value('newts', ts, 2 ** 32, 2 ** 39)
    elif alt == 'target-flags':
        pay['flags'] = [1, 2, 4, 0x10][c.choose(4, 'new-flags')]
    elif alt == 'other-data':
        items = list(SBuf.of(oth['data'])[0].items)
        items[0] = other_value('newother', items[0], 0, 255)
        oth['data'] = SBuf.mk([Lit(items)])
    elif alt == 'other-flags':
        oth['flags'] = [1, 2, 4, 0x10][c.choose(4, 'new-flags')]
    elif alt == 'bib-block-flags':
        bib['flags'] = [1, 2, 4, 0x10][c.choose(4, 'new-flags')]
    elif alt == 'addl-protected':
        # the same key id, but the parameter's octets differ (a second, harmless header)
        addl_now = rfc9171.enc({4: key.kid, 6: b'\x01'})
    bib['data'] = secblock(addl_now)
    wire = rfc9171.sealed_bundle(pri, [bib, oth, pay])
    r = BpWorld(node_id='dtn://dst/', ctr_cap=8)
    r.add_rx_route(r'^dtn://dst/.+', 'deliver')
    configure(r, 'mac0')
    r.recv(wire)
    r.run_idle(20)
    esc = r.escaped()
    c.prove(not esc, 'no-callback-exception', detail=[repr(e) for (_s, e) in esc])
    delivered = len(r.delivered)
    tag = '%s,%s' % (case['scope'], alt)
    if rx_covered(scope, alt):
        c.prove(delivered == 0, 'rx:altered-item-in-scope-fails-verification[%s]' % tag, detail=delivered)
        return {'class': 'rejected'}
    c.prove(delivered == 1, 'rx:unaltered-or-out-of-scope-verifies[%s]' % tag, detail=delivered)
    return {'class': 'verified'}


def keys(kind):
    from pycose import algorithms
    from pycose.keys import keyops, SymmetricKey
    if kind == 'mac0':
        k = SymmetricKey(k=bytes(range(32)), optional_params={'ALG': algorithms.HMAC256, 'KID': b'mackey',
                                                              'KEY_OPS': [keyops.MacCreateOp, keyops.MacVerifyOp]})
        return k, dict()
    k = SymmetricKey(k=bytes(range(16, 48)), optional_params={'ALG': algorithms.A256KW, 'KID': b'kek',
                                                              'KEY_OPS': [keyops.WrapOp, keyops.UnwrapOp]})
    return k, dict(content_alg=algorithms.HMAC256, content_key=bytes(range(100, 132)))


def configure(w, kind, wrong=False):
    from bp.app.bpsec import SecAssociation, SecOperation
    from pycose.keys import SymmetricKey
    ctx = w.agent._app['bpsec']._contexts[3]
    key, extra = keys(kind)
    if wrong:
        key = SymmetricKey(k=bytes(32 * [0x55]), optional_params={'ALG': key.alg, 'KID': key.kid, 'KEY_OPS': key.key_ops})
    ctx.sym_key_store[key.kid] = key
    return ctx, key, extra


def harness(case, tier):
    from bp.app.bpsec import SecAssociation, SecOperation
    from bp.encoding import PrimaryBlock, CanonicalBlock, Timestamp
    from bp.util import BundleContainer
    c = cur()
    idealcose.install()
    idealcose.reset()
    if case['kind'] == 'rx':
        return h_rx(c, case, tier)
    alt = case['alter']
    n = 4 if tier == 'quick' else 12
    # ---------------- source
    s = BpWorld(node_id='dtn://src/', ctr_cap=8)
    s.add_tx_route('.*', mtu=None)
    ctx, key, extra = configure(s, case['kind'])
    ctx.sec_assoc.append(SecAssociation(src_pat=re.compile('.*'), dst_pat=re.compile('.*'),
                                        tgt_blk_types=[1, 192] if case.get('targets') == 2 else [1],
                                        templates=[SecOperation(sec_type='bib', role='source', priv_key_id=key.kid, **extra)]))
    data = c.sym_bytes('pay', n)
    life = c.sym_int('lifetime', 2 ** 32, 2 ** 40)
    ts = c.sym_int('dtntime', 2 ** 32, 2 ** 39)
    ctr = BundleContainer()
    ctr.bundle.primary = PrimaryBlock(bundle_flags=0, destination='dtn://dst/app', source='dtn://src/app', report_to='dtn:none',
                                      create_ts=Timestamp(dtntime=ts, seqno=3), lifetime=life, crc_type=2)
    ctr.bundle.blocks = [CanonicalBlock(type_code=192, block_num=4, crc_type=0, btsd=c.sym_bytes('other', 2)),
                         CanonicalBlock(type_code=1, block_num=1, crc_type=2, btsd=data)]
    err = s.send(ctr)
    c.prove(err is None and len(s.sent) == 1, 'source-sends-protected-bundle', detail=dict(err=repr(err), n=len(s.sent)))
    if len(s.sent) != 1:
        return {'class': 'no-send'}
    wire = s.sent[0]
    b = rfc9171.decode_bundle(wire)
    bibs = [x for x in b['blocks'] if bool(x['type'] == 11)]
    c.prove(len(bibs) == 1, 'bundle-carries-one-bib', detail=len(bibs))
    if len(bibs) != 1:
        return {'class': 'no-bib'}

    # ---------------- the authenticated octets, constructed independently from the transmitted bundle
    macs = [e for e in idealcose._entries() if e['kind'] == 'mac']
    sb = rfc9171.read_secblock(bibs[0]['data'])
    scope = dict((int(k), int(v)) for (k, v) in dict((int(k), v) for (k, v) in sb['params'])[5].items())
    c.prove(len(macs) == len(sb['targets']), 'one-mac-per-target', detail=len(macs))
    for ix, tnum in enumerate(sb['targets']):
        tgt = [x for x in b['blocks'] if bool(x['num'] == tnum)][0]
        msg = symcbor.loads(sb['results'][ix][0][1])
        aad = rfc9171.bpsec_cose_aad(b, sb['source'], scope, tgt)
        want = rfc9171.enc(['MAC0', msg[0], aad, tgt['data']])
        if ix < len(macs):
            c.prove(same_bytes(macs[ix]['data'], want), 'authenticated-octets-equal-independent-construction',
                    detail=dict(got=macs[ix]['data'], want=want))
        c.prove(msg[2] is None, 'payload-detached-from-message', detail=repr(msg[2]))

    # ---------------- alteration on the wire (CRCs recomputed, as an on-path node could)
    p = dict(b['primary'])
    pri = dict(flags=p['flags'], crc_type=p['crc_type'], destination=rfc9171.eid_text(p['destination']),
               source=rfc9171.eid_text(p['source']), report_to=rfc9171.eid_text(p['report_to']),
               create_ts=list(p['create_ts']), lifetime=p['lifetime'], version=p['version'])
    blocks = [dict(type=x['type'], num=x['num'], flags=x['flags'], crc_type=x['crc_type'], data=x['data']) for x in b['blocks']]
    pay = [x for x in blocks if bool(x['type'] == 1)][0]
    bib = [x for x in blocks if bool(x['type'] == 11)][0]
    oth = [x for x in blocks if bool(x['type'] == 192)][0]
    changed = True

    def other_value(name, old, lo, hi):
        v = c.sym_int(name, lo, hi)
        c.assume(v != old)
        return v
    if alt == 'payload-octet':
        items = list(SBuf.of(pay['data'])[0].items)
        i = c.choose(len(items), 'octet')
        items[i] = other_value('newoctet', items[i], 0, 255)
        pay['data'] = SBuf.mk([Lit(items)])
    elif alt == 'lifetime':
        pri['lifetime'] = other_value('newlife', life, 2 ** 32, 2 ** 40)
    elif alt == 'timestamp':
        pri['create_ts'][0] = other_value('newts', ts, 2 ** 32, 2 ** 39)
    elif alt == 'destination':
        pri['destination'] = 'dtn://dst/other'
    elif alt == 'target-flags':
        pay['flags'] = [1, 2, 4, 0x10][c.choose(4, 'new-flags')]      # the source sets 0
    elif alt == 'bib-block-flags':
        bib['flags'] = [1, 2, 4, 0x10][c.choose(4, 'new-flags')]
    elif alt == 'unrelated-block':
        items = list(SBuf.of(oth['data'])[0].items)
        items[0] = other_value('newother', items[0], 0, 255)
        oth['data'] = SBuf.mk([Lit(items)])
    elif alt in ('sec-source', 'protected-header', 'tag', 'bib-target-entry'):
        bib['data'] = alter_bib(c, bib['data'], alt)
    elif alt == 'second-target-number':
        oth['num'] = c.sym_int('newnum', 5, 23)         # a number no block of the bundle has
    elif alt == 'attached-payload':
        bib['data'] = alter_bib(c, bib['data'], alt, attach=pay['data'])
        items = list(SBuf.of(pay['data'])[0].items)
        items[0] = other_value('newoctet', items[0], 0, 255)
        pay['data'] = SBuf.mk([Lit(items)])
    else:
        changed = False
    wire2 = rfc9171.sealed_bundle(pri, blocks) if changed else wire

    # ---------------- receiver
    r = BpWorld(node_id='dtn://dst/', ctr_cap=8)
    r.add_rx_route(r'^dtn://dst/.+', 'deliver')
    configure(r, case['kind'], wrong=(alt == 'wrong-key'))
    r.recv(wire2)
    r.run_idle(20)
    esc = r.escaped()
    c.prove(not esc, 'no-callback-exception', detail=[repr(e) for (_s, e) in esc])
    delivered = len(r.delivered)
    in_scope = alt in IN_SCOPE or (case.get('targets') == 2 and alt == 'unrelated-block')
    if in_scope:
        c.prove(delivered == 0, 'altered-covered-content-fails-verification[%s]' % alt, detail=delivered)
        return {'class': 'rejected'}
    c.prove(delivered == 1, 'unaltered-or-out-of-scope-verifies[%s]' % alt, detail=delivered)
    if delivered == 1:
        got = r.delivered[0].block_num(1).getfieldval('btsd')
        c.prove(same_bytes(got, data), 'verified-payload-is-original')
    return {'class': 'verified'}


def alter_bib(c, data, what, attach=None):
    ''' Re-encode the security block with one item changed. '''
    rd = symcbor._Rd(data if isinstance(data, SBuf) else SBuf(list(SBuf.of(data))))
    items = []
    while bool(blen(rd.buf) != 0):
        items.append(symcbor._dec(rd))
    # [targets, context id, flags, source, params, results]
    targets, ctxid, flags, source, params, results = items
    if what == 'sec-source':
        source = [1, '//other/']
    elif what == 'bib-target-entry':
        targets = list(targets[:-1]) + [c.sym_int('newtarget', 5, 23)]
    else:
        res = results[0][0]             # [cose tag number, encoded message]
        msg = symcbor.loads(res[1])
        msg = list(msg)
        if what == 'attached-payload':
            msg[2] = attach
        elif what == 'protected-header':
            msg[0] = msg[0] + b'\x00' if isinstance(msg[0], bytes) and False else symcbor._real.dumps({1: 6})
        else:
            # the tag (last element of COSE_Mac0 / second to last of COSE_Mac): some other octet string
            ix = 3
            t = bytes(msg[ix])
            j = c.choose(min(len(t), 4), 'tag-octet')
            v = c.sym_int('newtag', 0, 255)
            c.assume(v != t[j])
            msg[ix] = SBuf.mk([Lit(list(t[:j]) + [v] + list(t[j + 1:]))])
        res = [res[0], symcbor._enc(msg, False)]
        results = [[res]]
    e = rfc9171.enc
    return e(targets) + e(ctxid) + e(flags) + e(source) + e(params) + e(results)
