''' C04 - TCPCL endpoints only emit RFC 9174-legal message sequences.

The two byte streams of the C01 world (symbolic lengths / segment sizes / MRUs) are parsed by the
independent decoder vf/oracle/rfc9174.py and fed to the sequence automaton; the user may request
termination at several points. '''
from vf.engine import cur
from vf.oracle import rfc9174
from checks.tcpcl_common import *

MANIFEST = {'text': 'Bounded symbolic model checking: the octet streams written by both real endpoints (symbolic lengths/sizes/MRUs, optional terminate() at several points) are parsed by an independent RFC 9174 decoder and every sequencing rule is an obligation discharged by z3 per path.', 'note': 'Trusted: engine, stand-ins, the independent decoder/automaton (vf/oracle/rfc9174.py), z3. Bounds as C01 plus the set of termination points.', 'ref': '5 C04'}
BOUNDS = {
    'quick': dict(bundles='A->B in {1,2}, B->A in {0,1}', segments_per_bundle='<= 3 (2 with 3 bundles)',
                  terminate='none | by A, by B or by both at once: before sends, after 4/8/16 scheduler steps, at the end',
                  sched='lowest-source-id-first', chunk='CHUNK_SIZE lifted to 2^72'),
    'thorough': dict(bundles='A->B in {1,2}, B->A in {0,1}', segments_per_bundle='<= 4 (3 with 3 bundles)',
                     terminate='as quick, more positions', sched='plus 1 deviation', chunk='as quick'),
}
ASSUMPTIONS = [
    'as C01; additionally the user calls terminate() only on an established session (C09 covers the rest)',
    'independent decoder follows RFC 9174 field layouts; MSG_REJECT field order is not inspected here (C07)',
]
REQUIRED_CLASSES = {'all': ['term', 'no-term']}
QUICK_VALIDATE = 6
MAX_PATHS = {'quick': 20000, 'thorough': 100000}
CASE_SECONDS = {'quick': 240, 'thorough': 3000}


def cases(tier):
    out = []
    for (na, nb) in ((1, 0), (1, 1), (2, 0), (2, 1)):
        k = (3 if na + nb <= 2 else 2) if tier == 'quick' else (4 if na + nb <= 2 else 3)
        out.append(dict(na=na, nb=nb, kseg=k, term='none', dev=0))
        if na + nb <= 2:
            for who in ('A', 'B', 'AB'):
                out.append(dict(na=na, nb=nb, kseg=2, term=who, dev=0))
    if tier == 'thorough':
        # one scheduling deviation after the terminate() (network latency), one case per termination point
        for pt in ('0', '4', '8', '16'):
            out.append(dict(na=1, nb=1, kseg=2, term='A', dev=1, pts=pt))
            out.append(dict(na=2, nb=0, kseg=2, term='B', dev=1, pts=pt))
    return out


def harness(case, tier):
    c = cur()
    w = build_world(c)
    ok = establish(w)
    c.prove(ok, 'established')
    if not ok:
        return {'class': 'not-established'}
    term = case['term']
    points = [0, 4, 8, 16, 10 ** 6] if tier == 'quick' else [0, 2, 4, 6, 8, 12, 16, 24, 10 ** 6]
    if case.get('pts'):
        points = [int(x) for x in str(case['pts']).split('/')]
    when = points[c.choose(len(points), 'terminate-point')] if term != 'none' else None
    for i in range(case['na']):
        queue_bundle(c, w, 'A', i, case['kseg'])
    for i in range(case['nb']):
        queue_bundle(c, w, 'B', i, case['kseg'])
    termed = False
    if when is not None:
        start = w.steps
        w.run(400, choose_budget=0 if case.get('pts') else case['dev'], until=lambda: w.steps - start >= when)
        for h in ([w.a] if term == 'A' else [w.b] if term == 'B' else [w.a, w.b]):
            if h._in_sess and not h._in_term:
                h.terminate(3)
                termed = True
    w.run(600, choose_budget=case['dev'])
    c.prove(not w.escaped(), 'no-callback-exception', detail=[repr(e) for (_s, e) in w.escaped()])

    ma, ra = rfc9174.decode_stream(w.ab.total)
    mb, rb = rfc9174.decode_stream(w.ba.total)
    c.prove(blen(ra) == 0, 'wire:stream-ends-on-message-boundary[A]')
    c.prove(blen(rb) == 0, 'wire:stream-ends-on-message-boundary[B]')
    rfc9174.check_direction(c, ma, mb, 'A')
    rfc9174.check_direction(c, mb, ma, 'B')
    rfc9174.check_transfers(c, ma)
    rfc9174.check_transfers(c, mb)
    rfc9174.check_acks(c, mb, ma)
    rfc9174.check_acks(c, ma, mb)
    return {'class': 'term' if termed else 'no-term',
            'kindsA': [m['kind'] for m in ma], 'kindsB': [m['kind'] for m in mb],
            'wire': [w.ab.total, w.ba.total]}
