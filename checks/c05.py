''' C05 - BP fragmentation keeps every fragment within the route MTU and loses nothing.

The real agent send path (send_bundle, TX chain with the Fragment step, re-entry of each fragment) runs with a
payload of symbolic length (opaque blob with provenance) and a symbolic route MTU; every octet string handed to
the convergence layer is decoded by the independent RFC 9171 reader. '''
from vf.engine import SBuf, cur, blen, same_bytes, is_sym, Cut
from vf.oracle import rfc9171
from vf.bpenv import BpWorld

MANIFEST = {
    'text': 'Bounded symbolic model checking of the real transmit path: payload length P in [0,2^64) (opaque blob), '
            'route MTU M in [1,2^64), creation timestamp symbolic; CRC types, flags, extension-block sets, '
            'origin (local / forwarded) enumerated; each symbolic path covers a whole CBOR head-size class of P and '
            'M; obligations on the octets handed to the convergence layer (size <= M, tiling, identity, block '
            'replication) are discharged by z3 per path.',
    'note': 'Trusted: engine, vf.symcbor (validated against cbor2 on every concretely replayed path), crcmod stand-in '
            '(CRC of opaque content is an uninterpreted value), independent RFC 9171 reader, z3. Bound: <= K fragments.',
    'ref': '5 C05'}
BOUNDS = {
    'quick': dict(fragments='<= 3 (more are cut)', crc_types='{0,1,2} for primary and payload', ext_blocks='none | one plain | one replicated | both',
                  flags='none | NO_FRAGMENT | IS_FRAGMENT', security='off | BIB over the payload | BCB over the payload (ideal primitives)'),
    'thorough': dict(fragments='<= 4', crc_types='all 9 combinations', ext_blocks='as quick', flags='as quick', security='as quick'),
}
ASSUMPTIONS = [
    'payload content is opaque; its CRC is an uninterpreted value of the right width',
    'EIDs are fixed text; lifetime default; creation time in [2^32,2^64), sequence number in [0,23] (one CBOR head class each)',
    'security-on cases: COSE context with a symmetric key over ideal primitives (vf/idealcose.py); P < 2^62 there',
]
REQUIRED_CLASSES = {'all': ['fragmented', 'whole']}
QUICK_VALIDATE = 6
MAX_PATHS = {'quick': 20000, 'thorough': 200000}
QTIMEOUT_MS = {'quick': 20000, 'thorough': 240000}
CASE_SECONDS = {'quick': 300, 'thorough': 3600}


def cases(tier):
    out = []
    crcs = [(0, 0), (1, 1), (2, 2), (0, 2)] if tier == 'quick' else [(a, b) for a in (0, 1, 2) for b in (0, 1, 2)]
    for (pc, bc) in crcs:
        for ext in ('none', 'plain', 'repl', 'both'):
            if tier == 'quick' and ext in ('plain', 'both') and (pc, bc) != (2, 2):
                continue
            out.append(dict(pcrc=pc, bcrc=bc, ext=ext, flags='none', origin='local', kfrag=3 if tier == 'quick' else 4))
    for fl in ('nofrag', 'isfrag'):
        out.append(dict(pcrc=2, bcrc=2, ext='repl', flags=fl, origin='local', kfrag=3))
    out.append(dict(pcrc=2, bcrc=2, ext='both', flags='none', origin='forwarded', kfrag=3))
    out.append(dict(pcrc=0, bcrc=1, ext='none', flags='none', origin='forwarded', kfrag=3))
    out.append(dict(pcrc=2, bcrc=0, ext='none', flags='none', origin='forwarded', kfrag=3, ts0=1))
    out.append(dict(pcrc=0, bcrc=2, ext='repl', flags='none', origin='forwarded', kfrag=3, ts0=2))
    # security policy on: a BIB (COSE_Mac0, ideal MAC) over the payload is applied by the transmit chain
    out.append(dict(pcrc=2, bcrc=2, ext='none', flags='none', origin='local', kfrag=3, sec='bib'))
    out.append(dict(pcrc=1, bcrc=0, ext='repl', flags='none', origin='local', kfrag=3, sec='bib'))
    out.append(dict(pcrc=2, bcrc=1, ext='none', flags='none', origin='local', kfrag=3, sec='bcb'))
    return out


def security_on(w, what='bib'):
    ''' The same security association on an agent: BIB (or BCB) over the payload block with a symmetric key. '''
    import re
    from vf import idealcose
    from bp.app.bpsec import SecAssociation, SecOperation
    from pycose import algorithms
    from pycose.keys import keyops, SymmetricKey
    idealcose.install()
    key = SymmetricKey(k=bytes(range(32)), optional_params={'ALG': algorithms.HMAC256, 'KID': b'mackey',
                                                            'KEY_OPS': [keyops.MacCreateOp, keyops.MacVerifyOp]})
    extra = {}
    if what == 'bcb':
        key = SymmetricKey(k=bytes(range(32)), optional_params={'ALG': algorithms.A256GCM, 'KID': b'enckey',
                                                                'KEY_OPS': [keyops.EncryptOp, keyops.DecryptOp]})
        extra = dict(content_iv=[bytes(range(200, 212))])
    ctx = w.agent._app['bpsec']._contexts[3]
    ctx.sym_key_store[key.kid] = key
    ctx.sec_assoc.append(SecAssociation(src_pat=re.compile('.*'), dst_pat=re.compile('.*'), tgt_blk_types=[1],
                                        templates=[SecOperation(sec_type=what, role='source', priv_key_id=key.kid, **extra)]))


def build_bundle(c, case, P, payload):
    from bp.encoding import (Bundle, PrimaryBlock, CanonicalBlock, Timestamp, HopCountBlock, BundleAgeBlock)
    from bp.util import BundleContainer
    flags = {'none': 0, 'nofrag': PrimaryBlock.Flag.NO_FRAGMENT, 'isfrag': PrimaryBlock.Flag.IS_FRAGMENT}[case['flags']]
    t = 0 if case.get('ts0') else c.sym_int('dtntime', 2 ** 32, 2 ** 64 - 1)
    s = c.sym_int('seqno', 0, 23)
    kw = dict(bundle_flags=flags, destination='dtn://dest/svc', source='dtn://src/app', report_to='dtn:none',
              create_ts=Timestamp(dtntime=t, seqno=s), lifetime=0 if case.get('ts0') == 2 else 3600000, crc_type=case['pcrc'])
    if case['flags'] == 'isfrag':
        kw['fragment_offset'] = c.sym_int('foff', 0, 2 ** 32)
        kw['total_app_data_len'] = c.sym_int('ftotal', 0, 2 ** 64 - 1)
    ctr = BundleContainer()
    ctr.bundle.primary = PrimaryBlock(**kw)
    blocks = []
    if case['ext'] in ('plain', 'both'):
        blocks.append(CanonicalBlock(type_code=10, block_num=2, crc_type=case['bcrc']) / HopCountBlock(limit=30, count=c.sym_int('hops', 0, 29)))
    if case['ext'] in ('repl', 'both'):
        blocks.append(CanonicalBlock(type_code=192, block_num=3, block_flags=CanonicalBlock.Flag.REPLICATE_IN_FRAGMENT,
                                     crc_type=case['bcrc'], btsd=c.sym_bytes('xblk', 4)))
    blocks.append(CanonicalBlock(type_code=1, block_num=1, crc_type=case['bcrc'], btsd=payload))
    ctr.bundle.blocks = blocks
    return ctr


def harness(case, tier):
    from vf import rt
    c = cur()
    from vf import bpenv
    bpenv.CTR_COUNT[1] = None
    P = c.sym_int('P', 0, 2 ** 64 - 1, size=True)
    M = c.sym_int('M', 1, 2 ** 64 - 1, size=True)
    if case.get('sec'):
        c.assume(P < 2 ** 62)           # (ciphertext = plaintext + 16 octets must still have a CBOR length)
    payload = c.sym_blob('payload', P)
    ctr = build_bundle(c, case, P, payload)
    ref = reference_encoding(c, case, P, payload)
    # unwinding bound: K fragments (+1 for the decoded copy of a forwarded bundle)
    w = BpWorld(node_id='dtn://node/', ctr_cap=case['kfrag'] + 1)
    w.add_tx_route('.*', mtu=M)
    if case.get('sec'):
        security_on(w, case['sec'])
    # the unfragmented encoding, from the same builder on an agent without MTU
    w0 = None
    if case['origin'] == 'forwarded':
        # decode the encoded bundle first, as the receive path does (cached BTSD from the wire)
        from bp.encoding import Bundle
        from bp.util import BundleContainer
        ctr.reload()
        ctr.bundle.fill_fields()
        ctr.bundle.update_all_crc()
        wire = rt.b_bytes(ctr.bundle)
        ctr = BundleContainer(Bundle(wire))
        # the bundle arrives from elsewhere: mark it as the receive path does
        ctr.record_action('receive')
        if case.get('ts0'):
            # a clock-less source (creation time 0; also lifetime 0): origination defaults must not be applied, so
            # the reference is the received encoding itself
            ref = wire
    err = w.send(ctr)
    w.run_idle(40)
    esc = w.escaped()
    sent = list(w.sent)

    raised_in_idle = [e for (_s, e) in esc]
    c.prove(not raised_in_idle, 'no-exception-from-fragment-resend', detail=[repr(e) for e in raised_in_idle])
    may_fragment = case['flags'] == 'none'
    # what is fragmented is the payload block as the unfragmented bundle carries it (ciphertext under a BCB)
    orig = rfc9171.decode_bundle(ref)
    payload = [x for x in orig['blocks'] if bool(x['type'] == 1)][0]['data']
    payload = payload if isinstance(payload, SBuf) else SBuf.mk(list(SBuf.of(payload)))
    P = blen(payload)
    fits = blen(ref) <= M
    if bool(fits) or not may_fragment:
        # sent unchanged, exactly once
        c.prove(len(sent) == 1, 'unfragmented-sent-once', detail=dict(n=len(sent), err=repr(err)))
        if len(sent) == 1:
            c.prove(same_bytes(sent[0], ref), 'unfragmented-sent-unchanged', detail=dict(sent=sent[0], ref=ref))
        return {'class': 'whole', 'n': len(sent), 'sizes': [blen(d) for d in sent]}

    # fragmentation required
    for d in sent:
        c.prove(blen(d) <= M, 'fragment-within-mtu', detail=dict(size=blen(d), mtu=M))
    if not sent:
        # impossible to fragment: nothing altered or oversized may have been transmitted (nothing was).
        # It must really be impossible: with room for the non-payload part plus the fragment fields
        # (two uints and a byte-string head of at most 9 octets each) and one payload octet, fragments are due.
        room = (blen(ref) - P) + 28
        c.prove((M < room) | (P == 0), 'fragmentable-bundle-is-sent-as-fragments',
                detail=dict(M=M, non_payload=blen(ref) - P, P=P, err=repr(err)))
        return {'class': 'impossible', 'n': 0, 'err': type(err).__name__}
    off = 0
    tiles = []
    for i, d in enumerate(sent):
        try:
            b = rfc9171.decode_bundle(d)
        except rfc9171.Malformed as m:
            c.prove(False, 'fragment-is-wellformed', detail=str(m))
            continue
        p = b['primary']
        c.prove((p['flags'] & 1) == 1, 'fragment-flag-set', detail=p['flags'])
        c.prove(p['flags'] == orig['primary']['flags'] + 1, 'fragment-keeps-other-flags')
        for k in ('destination', 'source', 'report_to', 'lifetime', 'version'):
            c.prove(p[k] == orig['primary'][k], 'fragment-keeps-identity[%s]' % k, detail=dict(got=p[k], want=orig['primary'][k]))
        c.prove(p['create_ts'][0] == orig['primary']['create_ts'][0] and p['create_ts'][1] == orig['primary']['create_ts'][1],
                'fragment-keeps-identity[timestamp]')
        if 'fragment_offset' not in p:
            c.prove(False, 'fragment-has-offset-and-total')
            continue
        c.prove(p['total_adu_length'] == P, 'fragment-total-length', detail=dict(got=p['total_adu_length'], want=P))
        c.prove(p['fragment_offset'] == off, 'fragments-contiguous', detail=dict(i=i, got=p['fragment_offset'], want=off))
        pay = [x for x in b['blocks'] if bool(x['type'] == 1)]
        c.prove(len(pay) == 1 and b['blocks'][-1] is pay[0], 'payload-block-last')
        if len(pay) != 1:
            continue
        data = pay[0]['data']
        c.prove(same_bytes(data, payload[off:off + blen(data)]), 'fragment-data-is-payload-slice', detail=dict(i=i, data=data))
        c.prove(blen(data) > 0, 'fragment-non-empty')
        off = off + blen(data)
        ext_types = sorted(int(x['type']) for x in b['blocks'] if not bool(x['type'] == 1))
        want_all = sorted(int(x['type']) for x in orig['blocks'] if not bool(x['type'] == 1))
        want_repl = sorted(int(x['type']) for x in orig['blocks'] if not bool(x['type'] == 1) and bool((x['flags'] & 1) != 0))
        c.prove(ext_types == (want_all if i == 0 else want_repl), 'extension-block-replication',
                detail=dict(i=i, got=ext_types, first=want_all, later=want_repl))
    c.prove(off == P, 'fragments-cover-payload', detail=dict(covered=off, P=P, n=len(sent)))
    return {'class': 'fragmented', 'n': len(sent), 'sizes': [blen(d) for d in sent]}


def reference_encoding(c, case, P, payload):
    ''' The same bundle sent by an identical agent whose route has no MTU. '''
    from gi.repository import GLib
    import dbus.service
    w0 = BpWorld(node_id='dtn://node/')
    w0.add_tx_route('.*', mtu=None)
    if case.get('sec'):
        security_on(w0, case['sec'])
    # rebuild with the same symbolic inputs (same names -> same terms)
    ctr0 = build_bundle(RecallCtx(c), case, P, payload)
    w0.send(ctr0)
    assert len(w0.sent) == 1
    return w0.sent[0]


class RecallCtx(object):
    ''' Re-issues the inputs already created under the same names (no new constraints). '''

    def __init__(self, c):
        self.c = c

    def sym_int(self, name, lo=None, hi=None, size=False):
        if self.c.mode == 'conc':
            return self.c.sym_int(name, lo, hi)
        import z3
        from vf.engine import SInt
        return SInt(z3.Int(name))

    def sym_bytes(self, name, n):
        if self.c.mode == 'conc':
            return self.c.sym_bytes(name, n)
        import z3
        from vf.engine import SInt, SBuf, Lit
        return SBuf.mk([Lit([SInt(z3.Int('%s_%d' % (name, i))) for i in range(n)])])
