''' C06 - Fragments reassemble to the original bundle once, in any arrival order.

The real receive path (recv_bundle: CRC gate, seen set, RX chain with Administrative routing, Fragment
reassembly, re-injection through the idle source) is fed fragment bundles encoded by the independent RFC 9171
writer; offsets/lengths and the total length are symbolic, payload pieces are slices of an opaque blob. '''
import itertools
from vf.engine import cur, blen, same_bytes, is_sym, mk_bool, SBool
from vf.oracle import rfc9171
from vf.bpenv import BpWorld

MANIFEST = {
    'text': 'Bounded symbolic model checking of the real reassembly path: total length T in [0,65535] (thorough: [0,2^32]), fragment '
            'offsets/lengths symbolic (a tiling of [0,T) by k pieces, one piece optionally extended to overlap its '
            'neighbours), payload = slices of an opaque blob; every arrival permutation, a duplicate at every position '
            'and interleaving with a second bundle are enumerated; after every arrival "delivered <=> coverage '
            'complete" (coverage by an independent interval formula) is discharged by z3, and the delivered payload '
            'and extension blocks are compared with the original.',
    'note': 'Trusted: engine, vf.symcbor, portion stand-in (package absent here: cannot be diff-tested), independent '
            'RFC 9171 writer/reader, z3. Bounds: k <= 3 (4) fragments, one overlap extension, CRC type 0 on fragments.',
    'ref': '5 C06'}
BOUNDS = {
    'quick': dict(fragments='k in {1,2,3}', orders='all k! permutations', duplicates='one duplicate at every position (k<=2)',
                  overlap='one fragment may extend over its right neighbour', second_bundle='2 fragments interleaved (k=2)'),
    'thorough': dict(fragments='k in {1,2,3,4}', orders='all permutations', duplicates='one duplicate at every position',
                     overlap='as quick', second_bundle='as quick, k<=3'),
}
ASSUMPTIONS = [
    'fragments agree on the total length and lie inside [0,T) (the property speaks of sets that cover a bundle)',
    'fragments carry CRC type 0 (C08 covers the CRC gate); payload content opaque',
    'portion stand-in models closedopen intervals over integers with adjacency merging',
]
REQUIRED_CLASSES = {'all': ['reassembled']}
QUICK_VALIDATE = 4
MAX_PATHS = {'quick': 20000, 'thorough': 200000}


def cases(tier):
    out = []
    kmax = 3 if tier == 'quick' else 4
    for k in range(1, kmax + 1):
        for perm in itertools.permutations(range(k)):
            out.append(dict(k=k, order=''.join(map(str, perm)), dup=-1, second=0, overlap=1 if k >= 2 else 0))
    for k in (1, 2) if tier == 'quick' else (1, 2, 3):
        for pos in range(k + 1):
            for which in range(k):
                out.append(dict(k=k, order=''.join(map(str, range(k))), dup=pos * 10 + which, second=0, overlap=0))
    out.append(dict(k=2, order='01', dup=-1, second=1, overlap=0))
    out.append(dict(k=2, order='10', dup=-1, second=2, overlap=0))
    out.append(dict(k=2, order='01', dup=-1, second=3, overlap=0))
    return out


def covered(intervals, T):
    ''' [0,T) is covered by the union of half-open intervals: 0 and every interval end below T is inside one. '''
    def inside(p):
        r = False
        for (o, l) in intervals:
            r = r | ((o <= p) & (p < o + l))
        return r
    ok = (T == 0) | inside(0)
    for (o, l) in intervals:
        e = o + l
        ok = ok & ((e >= T) | inside(e))
    if not intervals:
        return T == 0
    return ok


def fragment_octets(src, ts, seq, dest, off, ln, T, data, first_ext):
    p = dict(flags=1, crc_type=0, destination=dest, source=src, report_to='dtn:none', create_ts=[ts, seq], lifetime=3600000,
             fragment_offset=off, total_adu_length=T)
    blocks = []
    if first_ext is not None:
        blocks.append(dict(type=192, num=2, flags=0, crc_type=0, data=first_ext))
    blocks.append(dict(type=1, num=1, flags=0, crc_type=0, data=data))
    return rfc9171.encode_bundle(p, blocks)


def harness(case, tier):
    c = cur()
    k = case['k']
    w = BpWorld(node_id='dtn://node/', ctr_cap=40)
    w.add_rx_route(r'^dtn://node/.*', 'deliver')
    dest = 'dtn://node/app'
    TMAX = 65535 if tier == 'quick' else 2 ** 32
    T = c.sym_int('T', 0, TMAX, size=True)
    ts = c.sym_int('ts', 2 ** 32, 2 ** 40)
    TAG['ts'] = ts
    orig = c.sym_blob('orig', T)
    # tiling 0 = c0 <= c1 <= ... <= ck = T
    cuts = [0]
    for i in range(1, k):
        ci = c.sym_int('cut%d' % i, 0, 2 ** 32, size=True)
        c.assume(ci >= cuts[-1])
        cuts.append(ci)
    c.assume(T >= cuts[-1])
    cuts.append(T)
    ivals = []
    for i in range(k):
        o, e = cuts[i], cuts[i + 1]
        if case['overlap'] and i == 0 and k >= 2:
            ext = c.sym_int('ext', 0, 2 ** 32, size=True)
            c.assume(e + ext <= T)
            e = e + ext
        ivals.append((o, e - o))
    ext_first = c.sym_bytes('xext', 3)
    frags = []
    for i, (o, l) in enumerate(ivals):
        # every fragment that starts at offset 0 is a first fragment and carries the extension blocks
        frags.append(fragment_octets('dtn://src/a', ts, 0, dest, o, l, T, orig[o:o + l], ext_first if bool(o == 0) else None))
    # arrival sequence
    seq = [('A', int(ch)) for ch in case['order']]
    if case['dup'] >= 0:
        pos, which = divmod(case['dup'], 10)
        seq.insert(pos, ('A', which))
    second = None
    if case['second']:
        T2 = c.sym_int('T2', 1, 255, size=True)
        cut2 = c.sym_int('cutB', 0, 2 ** 32, size=True)
        c.assume(cut2 <= T2)
        orig2 = c.sym_blob('orig2', T2)
        # differs from bundle A in exactly one identity component: creation time (1), source (2), sequence number (3)
        src2, ts2, seq2 = {1: ('dtn://src/a', ts + 1, 0), 2: ('dtn://src/b', ts, 0), 3: ('dtn://src/a', ts, 1)}[case['second']]
        second = dict(T=T2, orig=orig2, ivals=[(0, cut2), (cut2, T2 - cut2)],
                      frags=[fragment_octets(src2, ts2, seq2, dest, 0, cut2, T2, orig2[0:cut2], None),
                             fragment_octets(src2, ts2, seq2, dest, cut2, T2 - cut2, T2, orig2[cut2:T2], None)])
        seq = [seq[0], ('B', 0)] + seq[1:] + [('B', 1)]

    arrived = {'A': [], 'B': []}
    seen_ident = []
    for (which, i) in seq:
        data = frags[i] if which == 'A' else second['frags'][i]
        before = len(w.delivered)
        w.recv(data)
        w.run_idle(20)
        iv = ivals[i] if which == 'A' else second['ivals'][i]
        if not any(x is iv for x in arrived[which]):
            arrived[which].append(iv)
        esc = w.escaped()
        c.prove(not esc, 'no-exception-in-reassembly', detail=[repr(e) for (_s, e) in esc])
        # delivered <=> coverage complete, per bundle
        for tag, TT, ivs in (('A', T, arrived['A']),) + ((('B', second['T'], arrived['B']),) if second else ()):
            n = count_delivered(w, tag)
            cov = covered(ivs, TT) if ivs else False
            c.prove(mk(cov) == (n >= 1), 'delivered-iff-covered[%s]' % tag,
                    detail=dict(delivered=n, arrived=[(o, l) for (o, l) in ivs], T=TT))
            c.prove(n <= 1, 'delivered-at-most-once[%s]' % tag, detail=n)
    # final: exactly one reassembled bundle each, payload equals the original
    outs = []
    for tag, TT, oo in (('A', T, orig),) + ((('B', second['T'], second['orig']),) if second else ()):
        mine = [d for d in w.delivered if not is_fragment(d) and tag_of(d.bundle.primary) == tag]
        c.prove(len(mine) == 1, 'exactly-one-reassembled-bundle[%s]' % tag, detail=len(mine))
        if len(mine) == 1:
            ctr = mine[0]
            pay = ctr.block_num(1).getfieldval('btsd')
            pay = getattr(pay, 'buf', pay)
            c.prove(same_bytes(pay, oo), 'reassembled-payload-equals-original[%s]' % tag, detail=dict(got=pay))
            ext = [b for b in ctr.bundle.blocks if int(b.type_code) == 192]
            if tag == 'A':
                c.prove(len(ext) == 1 and same_bytes(ext[0].getfieldval('btsd'), ext_first), 'extension-blocks-of-first-fragment')
            else:
                c.prove(not ext, 'no-foreign-extension-blocks')
            outs.append(blen(pay))
    return {'class': 'reassembled', 'delivered': len(w.delivered), 'sizes': outs}


def mk(x):
    return x if isinstance(x, (bool, SBool)) else bool(x)


def is_fragment(ctr):
    fl = ctr.bundle.primary.getfieldval('bundle_flags')
    fl = getattr(fl, 'value', fl) if not is_sym(fl) else fl
    return bool((fl & 1) != 0)


def tag_of(pri):
    src = pri.source
    t = pri.create_ts.getfieldval('dtntime')
    # bundle A has source .../a and the base timestamp; the harness stores it for comparison
    base = TAG.get('ts')
    if src == 'dtn://src/a' and bool(t == base) and bool(pri.create_ts.getfieldval('seqno') == 0):
        return 'A'
    return 'B'


TAG = {}


def count_delivered(w, tag):
    return len([d for d in w.delivered if not is_fragment(d) and tag_of(d.bundle.primary) == tag])
