''' C07 - TCPCL message framing is independent of how TCP chunks the stream.

One real endpoint (real codec: Messenger.recv_raw, messages/contact/formats, scapy dissect/build) is fed
a peer stream whole and in two reads cut at every position; the messages acted on, the exceptions and the
remaining buffer must agree, and must agree with the independent RFC 9174 decoder. '''
from vf.engine import cur, blen, same_bytes, is_sym, SBuf, Cut
from vf.oracle import rfc9174
from checks.tcpcl_common import *

MANIFEST = {
    'text': 'Bounded symbolic model checking of the real TCPCL codec and receive loop: peer streams are built '
            'from symbolic message fields (every message type, extension lists, zero/large data) or are fully '
            'symbolic octets; the stream is delivered whole and cut at every position (symbolic cut), and the '
            'messages acted on / exceptions / buffer occupancy are compared between the two deliveries and with '
            'an independent RFC 9174 decoder; encode/decode agreement in both directions per message type.',
    'note': 'Trusted: engine, stand-ins, independent codec (vf/oracle/rfc9174.py), z3. Bounds: <= 2 (3) '
            'messages per structured stream, <= 5 (8) fully symbolic octets, one cut (two reads); more cuts, '
            'longer streams and TLS are outside the claim.',
    'ref': '5 C07'}
BOUNDS = {
    'quick': dict(structured='singles and 16 ordered pairs of message types (thorough: all 49), symbolic fields, data blob of '
                             'symbolic length < 2^64, ext lists 0..2 on the first message; one symbolic cut position anywhere',
                  raw='1..2 fully symbolic octets in-connection; contact phase 1..7 symbolic octets; every cut'),
    'thorough': dict(structured='all 49 pairs and 20 triples (at most one segment message each), ext lists 0..2 on single messages and 0..1 in longer streams', raw='up to 3 symbolic octets in-connection, 7 in the contact phase'),
}
ASSUMPTIONS = [
    'the peer stream is read in exactly two chunks (one cut); each read is below CHUNK_SIZE',
    'structured streams are well-formed per RFC 9174; raw streams are arbitrary octets',
    'node id text is concrete (ASCII, multi-octet UTF-8, empty)',
]
REQUIRED_CLASSES = {'all': ['acted', 'partial']}
QUICK_VALIDATE = 4
MAX_PATHS = {'quick': 30000, 'thorough': 200000}
CASE_SECONDS = {'quick': 300, 'thorough': 3000}

TYPES = ['XFER_SEGMENT', 'XFER_ACK', 'XFER_REFUSE', 'KEEPALIVE', 'SESS_TERM', 'MSG_REJECT', 'SESS_INIT']


def cases(tier):
    out = []
    for t in TYPES:
        out.append(dict(kind='msgs', seq=t))
    for i, t1 in enumerate(TYPES):
        for j, t2 in enumerate(TYPES):
            # quick: each type once in first and once in second position, plus the pairs around
            # zero-field messages; thorough: every ordered pair
            if tier == 'thorough' or (j == (i + 1) % 7 and t1 != 'SESS_INIT') or 'KEEPALIVE' in (t1, t2) and 'XFER' in t1 + t2:
                out.append(dict(kind='msgs', seq=t1 + '+' + t2))
    for n in (range(1, 3) if tier == 'quick' else range(1, 4)):
        out.append(dict(kind='raw', n=n))
    for n in range(1, 8):
        out.append(dict(kind='contact', n=n))
    for t in TYPES:
        out.append(dict(kind='codec', seq=t))
    if tier == 'thorough':
        for t1 in ('XFER_SEGMENT', 'KEEPALIVE', 'SESS_TERM'):
            for t2 in ('XFER_SEGMENT', 'XFER_ACK', 'KEEPALIVE'):
                for t3 in ('XFER_SEGMENT', 'KEEPALIVE', 'MSG_REJECT'):
                    if (t1, t2, t3).count('XFER_SEGMENT') <= 1:
                        out.append(dict(kind='msgs', seq='+'.join((t1, t2, t3))))
    return out


def sym_message(c, kind, ix, tier):
    ''' A well-formed message of the given kind with symbolic fields, as an oracle record. '''
    p = 'm%d_' % ix
    if kind == 'XFER_SEGMENT':
        flags = c.sym_int(p + 'flags', 0, 255)
        ln = c.sym_int(p + 'dlen', 0, 2 ** 64 - 1, size=True)
        ext = []
        if bool((flags & 2) != 0):
            nmax = 2 if ix == 0 else 1
            n = c.choose(nmax + 1, 'ext-count')
            for j in range(n):
                ext.append(dict(flags=c.sym_int(p + 'ef%d' % j, 0, 255), type=1,
                                value=c.sym_bytes(p + 'ev%d' % j, 8)))
        return dict(kind=kind, flags=flags, transfer_id=c.sym_int(p + 'tid', 0, 2 ** 64 - 1), ext=ext,
                    length=ln, data=c.sym_blob(p + 'data', ln))
    if kind == 'XFER_ACK':
        return dict(kind=kind, flags=c.sym_int(p + 'flags', 0, 255), transfer_id=c.sym_int(p + 'tid', 0, 2 ** 64 - 1),
                    length=c.sym_int(p + 'len', 0, 2 ** 64 - 1))
    if kind == 'XFER_REFUSE':
        return dict(kind=kind, reason=c.sym_int(p + 'reason', 0, 5), transfer_id=c.sym_int(p + 'tid', 0, 2 ** 64 - 1))
    if kind == 'KEEPALIVE':
        return dict(kind=kind)
    if kind == 'SESS_TERM':
        return dict(kind=kind, flags=c.sym_int(p + 'flags', 0, 255), reason=c.sym_int(p + 'reason', 0, 5))
    if kind == 'MSG_REJECT':
        return dict(kind=kind, reason=c.sym_int(p + 'reason', 1, 3), rejected=c.sym_int(p + 'rej', 0, 255))
    if kind == 'SESS_INIT':
        ext = []
        n = c.choose(3 if ix == 0 else 2, 'sext-count')
        for j in range(n):
            ext.append(dict(flags=c.sym_int(p + 'ef%d' % j, 0, 255), type=0xFF,
                            value=c.sym_bytes(p + 'ev%d' % j, 10)))
        # node IDs: ASCII, with multi-octet UTF-8 characters, empty
        nid = ['dtn://peer/', 'dtn://n\u00f6de/\u20ac', ''][c.choose(3, 'node-id')]
        return dict(kind=kind, keepalive=c.sym_int(p + 'ka', 0, 65535), segment_mru=c.sym_int(p + 'smru', 0, 2 ** 64 - 1),
                    transfer_mru=c.sym_int(p + 'tmru', 0, 2 ** 64 - 1), node_id=nid.encode('utf-8'), node_text=nid, ext=ext)
    raise ValueError(kind)


class Endpoint(object):
    ''' One real active endpoint with a recording tap on recv_message. '''

    def __init__(self, established=True):
        self.w = World(mkcfg('dtn://a/'), None)
        self.h = self.w.a
        self.h.CHUNK_SIZE = BIG
        self.acted = []
        self.exc = []
        real = self.h.recv_message

        def tap(pkt):
            self.acted.append(pkt)
            try:
                return real(pkt)
            except Exception as err:   # what the session does with it is C17's business
                self.exc.append(('handler', type(err).__name__))

        self.h.recv_message = tap
        if established:
            self.feed(rfc9174.encode(dict(kind='contact', flags=0)))
            self.feed(rfc9174.encode(dict(
                kind='SESS_INIT', keepalive=0, segment_mru=2 ** 64 - 1, transfer_mru=2 ** 64 - 1,
                node_id=b'dtn://peer/', ext=[])))
            assert self.h._state == 'established', self.h._state
            self.acted = []

    def feed(self, data):
        ''' One TCP read delivering `data` (through the socket stand-in and the real _rx_proxy). '''
        if not bool(blen(data) != 0):
            return
        self.w.ba.buf = self.w.ba.buf + data
        src = [s for s in self.w.enabled() if s.kind == 'io' and s.cond & 1]
        if not src:
            self.exc.append(('no-rx-watch', ''))
            return
        n0 = len(self.w.escaped())
        self.w.dispatch(src[0])
        for (_s, err) in self.w.escaped()[n0:]:
            self.exc.append(('escaped', type(err).__name__))

    def buffered(self):
        return self.h.recv_buffer_used()


def msg_fields(pkt):
    ''' Comparable view of a dissected packet: re-encoded octets per layer. '''
    from vf import rt
    return rt.b_bytes(pkt)


def harness(case, tier):
    c = cur()
    kind = case['kind']
    if kind == 'codec':
        return codec_roundtrip(c, case, tier)
    established = kind != 'contact'
    if kind == 'msgs':
        seq = case['seq'].split('+')
        # (two extension items on the first message of short streams only: singles, and pairs in the quick tier)
        recs = [sym_message(c, t, i if (len(seq) == 1 or (len(seq) == 2 and tier == 'quick')) else i + 1, tier) for i, t in enumerate(seq)]
        stream = b''
        for r in recs:
            stream = stream + rfc9174.encode(r)
    else:
        stream = c.sym_bytes('s', case['n'])
    total = blen(stream)

    whole = Endpoint(established)
    whole.feed(stream)

    # independent decoder on the whole stream
    try:
        exp, rest = rfc9174.decode_stream(stream, expect_contact=not established)
        exp_err = None
    except rfc9174.Malformed as err:
        exp, rest, exp_err = None, None, str(err)

    # one symbolic cut 1 <= k < total
    k = c.sym_int('cut', 1, 2 ** 64 - 1, size=True)
    c.assume(k < total)
    split = Endpoint(established)
    first = stream[:k]
    second = stream[k:]
    split.feed(first)
    acted_after_first = len(split.acted)
    exc_after_first = [e for e in split.exc if e[0] != 'handler']
    buffered_after_first = split.buffered()
    split.feed(second)

    z = 'contact' if kind == 'contact' else 'msg'
    # (a) split invariance
    c.prove(len(split.acted) == len(whole.acted), 'split:same-message-count[%s]' % z,
            detail=dict(whole=len(whole.acted), split=len(split.acted), k=k))
    for i in range(min(len(split.acted), len(whole.acted))):
        c.prove(same_bytes(msg_fields(split.acted[i]), msg_fields(whole.acted[i])), 'split:same-messages[%s]' % z)
    # once the endpoint has closed the connection nothing further is read or buffered meaningfully
    wc = 'A' in whole.w.closed_socks
    sc = 'A' in split.w.closed_socks
    c.prove(wc == sc, 'split:same-closure[%s]' % z, detail=dict(whole=wc, split=sc, k=k))
    if not (wc and sc):
        c.prove(split.exc == whole.exc, 'split:same-exceptions[%s]' % z, detail=dict(whole=whole.exc, split=split.exc, k=k))
        c.prove(split.buffered() == whole.buffered(), 'split:same-remaining-buffer[%s]' % z,
                detail=dict(whole=whole.buffered(), split=split.buffered()))
    # a prefix is left untouched: no exception may come out of a partial delivery
    if exp_err is None:
        c.prove(not exc_after_first, 'prefix:no-exception-on-partial[%s]' % z, detail=dict(exc=exc_after_first, k=k))

    # (b) agreement with the independent decoder
    if exp_err is None and not whole.exc and not wc:
        c.prove(len(whole.acted) == len(exp), 'oracle:same-message-count[%s]' % z,
                detail=dict(impl=len(whole.acted), oracle=[m['kind'] for m in exp], buffered=whole.buffered()))
        c.prove(whole.buffered() == blen(rest), 'oracle:same-remaining-buffer[%s]' % z,
                detail=dict(impl=whole.buffered(), oracle=blen(rest)))
        # messages wholly inside the first read are acted on at once, later ones are not
        expf, _r = rfc9174.decode_stream(first, expect_contact=not established)
        c.prove(acted_after_first == len(expf), 'prefix:acted-exactly-complete-messages[%s]' % z,
                detail=dict(impl=acted_after_first, oracle=len(expf), k=k))
        for i in range(min(len(whole.acted), len(exp))):
            compare_fields(c, whole.acted[i], exp[i])
    cls = 'acted' if whole.acted else 'partial'
    return {'class': cls, 'acted': len(whole.acted), 'exc': whole.exc, 'buffered': whole.buffered(),
            'acted_first': acted_after_first}


def compare_fields(c, pkt, m):
    ''' Implementation's dissected packet vs the oracle's record. '''
    k = m['kind']
    if k == 'contact':
        c.prove(pkt.payload.getfieldval('flags') == m['flags'], 'oracle:contact-flags')
        return
    names = {'XFER_SEGMENT': 'TransferSegment', 'XFER_ACK': 'TransferAck', 'XFER_REFUSE': 'TransferRefuse',
             'KEEPALIVE': 'Keepalive', 'SESS_TERM': 'SessionTerm', 'MSG_REJECT': 'RejectMsg', 'SESS_INIT': 'SessionInit'}
    cls = pkt.guess_payload_class(b'')
    c.prove(cls.__name__ == names[k], 'oracle:same-message-type', detail=dict(impl=cls.__name__, oracle=k))
    if cls.__name__ != names[k]:
        return
    p = pkt.payload

    def fv(name):
        v = p.getfieldval(name)
        return getattr(v, 'value', v) if not is_sym(v) else v
    if k == 'XFER_SEGMENT':
        c.prove(fv('flags') == m['flags'], 'oracle:segment-flags')
        c.prove(fv('transfer_id') == m['transfer_id'], 'oracle:segment-transfer-id')
        c.prove(same_bytes(p.getfieldval('data'), m['data']), 'oracle:segment-data')
        ext = p.getfieldval('ext_items') or []
        c.prove(len(ext) == len(m['ext']), 'oracle:segment-ext-count', detail=dict(impl=len(ext), oracle=len(m['ext'])))
    elif k == 'XFER_ACK':
        c.prove(fv('flags') == m['flags'], 'oracle:ack-flags')
        c.prove(fv('transfer_id') == m['transfer_id'], 'oracle:ack-transfer-id')
        c.prove(fv('length') == m['length'], 'oracle:ack-length')
    elif k == 'XFER_REFUSE':
        c.prove(fv('reason') == m['reason'], 'oracle:refuse-reason')
        c.prove(fv('transfer_id') == m['transfer_id'], 'oracle:refuse-transfer-id')
    elif k == 'SESS_TERM':
        c.prove(fv('flags') == m['flags'], 'oracle:term-flags')
        c.prove(fv('reason') == m['reason'], 'oracle:term-reason')
    elif k == 'MSG_REJECT':
        c.prove(fv('reason') == m['reason'], 'oracle:reject-reason', detail=dict(impl=fv('reason'), oracle=m['reason']))
        c.prove(fv('rej_msg_id') == m['rejected'], 'oracle:reject-header')
    elif k == 'SESS_INIT':
        c.prove(fv('keepalive') == m['keepalive'], 'oracle:init-keepalive')
        c.prove(fv('segment_mru') == m['segment_mru'], 'oracle:init-segment-mru')
        c.prove(fv('transfer_mru') == m['transfer_mru'], 'oracle:init-transfer-mru')
        c.prove(same_bytes(p.getfieldval('nodeid_data'), m['node_id']), 'oracle:init-node-id')
        ext = p.getfieldval('ext_items') or []
        c.prove(len(ext) == len(m['ext']) and all(type(e).__name__ == 'SessionExtendHeader' for e in ext), 'oracle:init-ext-count',
                detail=dict(impl=[type(e).__name__ for e in ext], oracle=len(m['ext'])))


def codec_roundtrip(c, case, tier):
    ''' Encode side: the implementation's octets for a message with symbolic fields decode under the
    independent decoder to the same fields. '''
    from tcpcl import messages, extend
    from vf import rt
    t = case['seq']
    m = sym_message(c, t, 0, tier)
    H = messages.MessageHead
    if t == 'XFER_SEGMENT':
        ext = [messages.TransferExtendHeader(flags=e['flags']) / extend.TransferTotalLength(
            total_length=rfc9174.unpack_uint(SBuf.of(e['value'])[0].items) if blen(e['value']) else 0) for e in m['ext']]
        pkt = H() / messages.TransferSegment(flags=m['flags'], transfer_id=m['transfer_id'], data=m['data'], ext_items=ext)
    elif t == 'XFER_ACK':
        pkt = H() / messages.TransferAck(flags=m['flags'], transfer_id=m['transfer_id'], length=m['length'])
    elif t == 'XFER_REFUSE':
        pkt = H() / messages.TransferRefuse(reason=m['reason'], transfer_id=m['transfer_id'])
    elif t == 'KEEPALIVE':
        pkt = H() / messages.Keepalive()
    elif t == 'SESS_TERM':
        pkt = H() / messages.SessionTerm(flags=m['flags'], reason=m['reason'])
    elif t == 'MSG_REJECT':
        pkt = H() / messages.RejectMsg(reason=m['reason'], rej_msg_id=m['rejected'])
    else:
        ext = [messages.SessionExtendHeader(flags=e['flags']) / extend.SessionPrivateDummy(
            largeval=rfc9174.unpack_uint(SBuf.of(e['value'])[0].items[:8]),
            smallval=rfc9174.unpack_uint(SBuf.of(e['value'])[0].items[8:])) for e in m['ext']]
        pkt = H() / messages.SessionInit(keepalive=m['keepalive'], segment_mru=m['segment_mru'],
                                         transfer_mru=m['transfer_mru'], nodeid_data=m['node_text'], ext_items=ext)
    octets = rt.b_bytes(pkt)
    want = rfc9174.encode(m)
    ok = c.prove(same_bytes(octets, want), 'codec:impl-encoding-equals-rfc[%s]' % t,
                 detail=dict(impl=octets, rfc=want))
    try:
        got, rest = rfc9174.decode_stream(octets, expect_contact=False)
    except rfc9174.Malformed as err:
        c.prove(False, 'codec:rfc-decoder-accepts-impl-encoding[%s]' % t, detail=str(err))
        return {'class': 'acted'}
    c.prove(len(got) == 1 and blen(rest) == 0, 'codec:one-message[%s]' % t)
    return {'class': 'acted' if ok else 'partial', 'octets': octets}
