''' C08 - Block CRCs are always valid on output and always checked on input.

 * out:  the real send path on bundles with symbolic fields / block data; the transmitted octets are decoded
         independently and every block's CRC field is compared with the CRC of the block re-encoded with a zeroed
         field (independent table-driven CRC for concrete content).
 * gate: a received bundle whose CRC field is an arbitrary octet string: unless it equals the right CRC nothing at
         all happens, and a later correct copy is still accepted.
 * flip: bit-precise CRC (z3 bit-vectors): arbitrary non-zero error patterns up to the CRC width inside the value
         octets of a protected block (block data, lifetime, CRC field) are always detected and the bundle dropped. '''
from vf.engine import cur, blen, same_bytes, is_sym, SInt, SBuf, Lit, bv_of
from vf.oracle import rfc9171
from vf import symcrc
from vf.symstruct import unpack_uint
from vf.bpenv import BpWorld
import z3

MANIFEST = {
    'text': 'Bounded symbolic model checking of update_crc / check_crc / the receive gate: (out) symbolic fields and '
            'block data through the real send path, CRC fields of the transmitted octets checked by an independent '
            'reader and CRC; (gate) arbitrary CRC field octets on each block kind: mismatch => no action at all and '
            'the identity is not marked seen; (flip) CRC-16/X.25 and CRC-32C computed bit-precisely in z3 over 12..24 '
            'symbolic octets: for CRC-16/X.25 every non-zero error pattern confined to 2 adjacent value octets is decided (symbolic 16-bit pattern); bit-precise CRC-32C queries time out in z3 and cvc5 (probed), so for CRC-32C only the gate obligation (any mismatch is dropped) is claimed.',
    'note': 'Trusted: engine, vf.symcbor, the crcmod stand-in (bitwise CRC, cross-checked against the independent '
            'table-driven CRC on concrete blocks and the standard check values), z3. Structural (CBOR head) octet '
            'corruption and multi-burst errors are outside the claim.',
    'ref': '5 C08'}
BOUNDS = {'quick': dict(fwd='received with CRC values in place and forwarded whole / as >= 2 fragments (payload 120 octets)', eidflip='all 48 single-bit flips in the 6 octets of a node-ID-form EID text (concrete enumeration)', out='CRC types {0,1,2} per block, shapes: payload only | + hop-count | + unknown block',
                        gate='primary / payload / extension block', flip='CRC-16: block data 8 octets; positions: every data octet pair, crc field'),
          'thorough': dict(out='all 9 type combinations', gate='as quick', flip='CRC-16: block data 16 octets')}
ASSUMPTIONS = [
    'error patterns leave the CBOR structure intact and do not change the length of a canonical uint encoding '
    '(value octets of byte strings and of the CRC field only; see DESIGN.md, C08 finding on re-encoding)',
    'CRC-32C error detection itself (a property of the polynomial) is not decided: solver timeouts; only that any CRC mismatch is dropped',
    'CRC of opaque/symbolic content in the out/gate cases is an uninterpreted function with functional consistency',
]
REQUIRED_CLASSES = {'all': ['out', 'gate', 'flip']}
QUICK_VALIDATE = 3
MAX_PATHS = {'quick': 20000, 'thorough': 100000}
CASE_SECONDS = {'quick': 400, 'thorough': 2400}
QTIMEOUT_MS = {'quick': 40000, 'thorough': 120000}

NODE = 'dtn://node/'


def cases(tier):
    out = []
    combos = [(0, 0), (1, 1), (2, 2), (1, 2), (2, 0)] if tier == 'quick' else [(a, b) for a in (0, 1, 2) for b in (0, 1, 2)]
    for (pc, bc) in combos:
        for shape in ('payload', 'hop', 'unknown'):
            out.append(dict(kind='out', pcrc=pc, bcrc=bc, shape=shape))
    # forwarded bundles: every block arrives with a CRC value already in place and leaves with a recomputed one
    for (pc, bc) in combos:
        if tier == 'quick' and (pc, bc) in ((0, 0), (2, 0)):
            continue
        for mtu in (None, 'frag'):
            out.append(dict(kind='fwd', pcrc=pc, bcrc=bc, mtu=mtu))
    for ct in (1, 2):
        for where in ('primary', 'payload', 'ext'):
            out.append(dict(kind='gate', crc=ct, where=where))
    for where in ('data', 'crcfield'):
        out.append(dict(kind='flip', crc=1, where=where, n=8 if tier == 'quick' else 16))
    # concrete single-bit flips in the text of a node-ID-form EID (dtn://src/) of the primary block
    for ct in (1, 2):
        out.append(dict(kind='eidflip', crc=ct))
    # corruption of the structural octets of a canonical block (array head, type, number, flags, CRC type): every XOR
    # pattern within each of these octets (bursts of up to 8 bits), enumerated; the block data stays symbolic
    for ct in ((1,) if tier == 'quick' else (1, 2)):
        for octet in range(5):
            out.append(dict(kind='structflip', crc=ct, octet=octet))
            if tier != 'quick':
                out.append(dict(kind='structflip', crc=ct, octet=octet, blk='primary'))
                out.append(dict(kind='structflip', crc=ct, octet=octet, blk='payload'))
    return out


def harness(case, tier):
    c = cur()
    symcrc.EXACT[0] = (case['kind'] in ('flip', 'eidflip', 'structflip'))
    try:
        return {'out': h_out, 'fwd': h_fwd, 'gate': h_gate, 'flip': h_flip, 'eidflip': h_eidflip, 'structflip': h_structflip}[case['kind']](c, case, tier)
    finally:
        symcrc.EXACT[0] = False


def h_out(c, case, tier):
    from bp.encoding import PrimaryBlock, CanonicalBlock, Timestamp, HopCountBlock
    from bp.util import BundleContainer
    w = BpWorld(node_id=NODE, ctr_cap=4)
    w.add_tx_route('.*', mtu=None)
    ctr = BundleContainer()
    ctr.bundle.primary = PrimaryBlock(
        bundle_flags=0, destination='dtn://dest/svc', source='dtn://src/app', report_to='dtn:none',
        create_ts=Timestamp(dtntime=c.sym_int('t', 2 ** 32, 2 ** 39), seqno=c.sym_int('s', 0, 2 ** 64 - 1)),
        lifetime=c.sym_int('life', 1, 2 ** 64 - 1), crc_type=case['pcrc'])
    blocks = []
    if case['shape'] == 'hop':
        blocks.append(CanonicalBlock(type_code=10, block_num=2, crc_type=case['bcrc']) /
                      HopCountBlock(limit=c.sym_int('lim', 0, 255), count=c.sym_int('cnt', 0, 255)))
    if case['shape'] == 'unknown':
        blocks.append(CanonicalBlock(type_code=c.sym_int('utype', 192, 255), block_num=3, crc_type=case['bcrc'],
                                     btsd=c.sym_bytes('ublk', 5)))
    n = c.sym_int('P', 0, 2 ** 16, size=True)
    blocks.append(CanonicalBlock(type_code=1, block_num=1, crc_type=case['bcrc'], btsd=c.sym_blob('payload', n)))
    ctr.bundle.blocks = blocks
    err = w.send(ctr)
    c.prove(err is None and len(w.sent) == 1, 'sent-once', detail=dict(err=repr(err), n=len(w.sent)))
    if len(w.sent) != 1:
        return {'class': 'out', 'n': len(w.sent)}
    b = rfc9171.decode_bundle(w.sent[0])
    c.prove(b['primary']['crc_type'] == case['pcrc'], 'primary-crc-type-kept')
    for blk in b['blocks']:
        c.prove(blk['crc_type'] == case['bcrc'], 'block-crc-type-kept')
    rfc9171.check_crcs(c, b, c.prove)
    return {'class': 'out', 'size': blen(w.sent[0])}


def h_fwd(c, case, tier):
    w = BpWorld(node_id=NODE, ctr_cap=10)
    w.add_rx_route(r'^dtn://dest/.*', 'forward')
    frag = case['mtu'] == 'frag'
    pri = dict(flags=0, crc_type=case['pcrc'], destination='dtn://dest/svc', source='dtn://src/app', report_to='dtn:none',
               create_ts=[c.sym_int('t', 2 ** 32, 2 ** 39), c.sym_int('s', 0, 2 ** 32)],
               lifetime=c.sym_int('life', 2 ** 32, 2 ** 40))
    if frag:
        pay = c.sym_bytes('payload', 120)
    else:
        pay = c.sym_blob('payload', c.sym_int('P', 0, 2 ** 16, size=True))
    blocks = [dict(type=10, num=2, flags=0, crc_type=case['bcrc'], data=rfc9171.enc([c.sym_int('lim', 30, 255), c.sym_int('cnt', 0, 23)])),
              dict(type=200, num=3, flags=0, crc_type=case['bcrc'], data=c.sym_bytes('ext', 3)),
              dict(type=1, num=1, flags=0, crc_type=case['bcrc'], data=pay)]
    wire = rfc9171.sealed_bundle(pri, blocks)
    w.add_tx_route('.*', mtu=(blen(wire) - 40) if frag else None)
    w.recv(wire)
    w.run_idle(40)
    esc = w.escaped()
    c.prove(not esc, 'no-callback-exception', detail=[repr(e) for (_s, e) in esc])
    c.prove(len(w.sent) >= (2 if frag else 1), 'forwarded', detail=len(w.sent))
    for x in w.sent:
        b = rfc9171.decode_bundle(x)
        c.prove(b['primary']['crc_type'] == case['pcrc'], 'primary-crc-type-kept')
        # (blocks the node rewrites - hop count, previous node - get the node's own CRC type)
        rfc9171.check_crcs(c, b, c.prove, tag='[forwarded]')
    return {'class': 'out', 'n': len(w.sent)}


def h_gate(c, case, tier):
    ct = case['crc']
    width = 2 if ct == 1 else 4
    w = BpWorld(node_id=NODE, ctr_cap=8)
    w.add_rx_route(r'^dtn://node/.+', 'deliver')
    w.add_tx_route('.*', mtu=None)
    payload = c.sym_blob('payload', c.sym_int('P', 0, 255, size=True))
    pri = dict(flags=0x44000, crc_type=ct, destination='dtn://node/app', source='dtn://src/app', report_to='dtn://rep/svc',
               create_ts=[c.sym_int('t', 2 ** 32, 2 ** 39), 0], lifetime=3600000)
    blocks = [dict(type=200, num=2, flags=0, crc_type=ct, data=c.sym_bytes('ext', 3)),
              dict(type=1, num=1, flags=0, crc_type=ct, data=payload)]
    good = rfc9171.sealed_bundle(pri, blocks)
    # the same bundle with an arbitrary CRC field in one block
    junk = c.sym_bytes('crcfield', width)
    parts = [rfc9171.seal_primary(pri)] + [rfc9171.seal_canonical(b) for b in blocks]
    ix = {'primary': 0, 'ext': 1, 'payload': 2}[case['where']]
    right = parts[ix][-1]
    parts[ix] = parts[ix][:-1] + [junk]
    bad = b'\x9f'
    for p in parts:
        bad = bad + rfc9171.enc(p)
    bad = bad + b'\xff'
    w.recv(bad)
    w.run_idle(20)
    esc = w.escaped()
    c.prove(not esc, 'no-callback-exception', detail=[repr(e) for (_s, e) in esc])
    differs = not c.must(same_bytes(junk, right))
    if bool(same_bytes(junk, right)):
        c.prove(len(w.delivered) == 1, 'correct-crc-accepted', detail=len(w.delivered))
        return {'class': 'gate'}
    c.prove(len(w.delivered) == 0, 'crc-mismatch-not-delivered[%s]' % case['where'], detail=len(w.delivered))
    c.prove(len(w.sent) == 0, 'crc-mismatch-nothing-sent-or-reported[%s]' % case['where'], detail=len(w.sent))
    c.prove(len(w.agent._seen_bundle_ident) == 0, 'crc-mismatch-not-marked-seen[%s]' % case['where'])
    # the intact copy arriving afterwards is processed normally
    w.recv(good)
    w.run_idle(20)
    c.prove(len(w.delivered) == 1, 'intact-copy-accepted-after-corrupted-one[%s]' % case['where'], detail=len(w.delivered))
    return {'class': 'gate'}


def h_eidflip(c, case, tier):
    ''' The receive gate recomputes the CRC over the re-encoded fields, not over the received octets; EID text is
    normalised on re-encoding.  Every single-bit flip inside the source EID text is enumerated (concrete octets,
    one fork per position and bit); the payload stays symbolic in its own unprotected block. '''
    ct = case['crc']
    w = BpWorld(node_id=NODE, ctr_cap=6)
    w.add_rx_route(r'^dtn://node/.+', 'deliver')
    w.add_tx_route('.*', mtu=None)
    pri = dict(flags=0, crc_type=ct, destination='dtn://node/app', source='dtn://src/', report_to='dtn:none',
               create_ts=[2 ** 33, 5], lifetime=3600000)
    blocks = [dict(type=1, num=1, flags=0, crc_type=0, data=c.sym_bytes('d', 4))]
    good = rfc9171.sealed_bundle(pri, blocks)
    items = good.lit_items() if isinstance(good, SBuf) else list(good)
    text = b'//src/'
    head = bytes(int(x) for x in items[:80] if not is_sym(x))
    start = head.index(text)
    pos = c.choose(len(text), 'eid-octet')
    bit = c.choose(8, 'bit')
    bad_items = list(items)
    bad_items[start + pos] = int(bad_items[start + pos]) ^ (1 << bit)
    bad = SBuf.mk([Lit(bad_items)]) if isinstance(good, SBuf) else bytes(bad_items)
    w.recv(bad)
    w.run_idle(20)
    tag = 'crc%d,octet=%d,bit=%d' % (ct, pos, bit)
    c.prove(len(w.delivered) == 0 and len(w.agent._seen_bundle_ident) == 0, 'eid-text-flip-dropped[%s]' % tag,
            detail=dict(delivered=len(w.delivered), corrupted=bytes(bad_items[start:start + len(text)])))
    return {'class': 'flip'}


def h_structflip(c, case, tier):
    ''' Every XOR pattern on one structural octet of a CRC-protected hop-count block that is followed by two more
    blocks.  (The CRC gate works on the re-encoding of the decoded fields, so what matters is whether the damaged
    octets still decode to something that re-encodes to the original.) '''
    ct = case['crc']
    w = BpWorld(node_id=NODE, ctr_cap=6)
    w.add_rx_route(r'^dtn://node/.+', 'deliver')
    w.add_rx_route(r'^dtn://far/.+', 'forward')
    w.add_tx_route('.*', mtu=None)
    dest = ['dtn://node/app', 'dtn://far/app'][c.choose(2, 'destination')]
    pri = dict(flags=0, crc_type=ct, destination=dest, source='dtn://src/app', report_to='dtn:none',
               create_ts=[2 ** 33, 5], lifetime=3600000)
    hop = dict(type=10, num=2, flags=0, crc_type=ct, data=rfc9171.enc([30, 3]))
    which = case.get('blk', 'hop')
    payblk = dict(type=1, num=1, flags=0, crc_type=ct if which == 'payload' else 0, data=b'\x00\x01\x02\x03')
    blocks = [hop, dict(type=200, num=3, flags=0, crc_type=0, data=b'\x01\x02\x03'), payblk]
    good = bytes(rfc9171.sealed_bundle(pri, blocks))
    if which == 'primary':
        start = 1                     # right behind the 0x9f of the bundle array
    else:
        tgt_enc = bytes(rfc9171.enc(rfc9171.seal_canonical(hop if which == 'hop' else payblk)))
        start = good.index(tgt_enc)
    pos = start + case['octet']
    pat = 1 + c.choose(255, 'xor-pattern')
    bad = bytearray(good)
    bad[pos] ^= pat
    w.recv(bytes(bad))
    w.run_idle(20)
    tag = ('crc%d,octet=%d,xor=%02x' % (ct, case['octet'], pat)) if which == 'hop' else ('%s,crc%d,octet=%d,xor=%02x' % (which, ct, case['octet'], pat))
    c.prove(len(w.delivered) == 0 and len(w.sent) == 0 and len(w.agent._seen_bundle_ident) == 0,
            'structurally-corrupted-block-dropped[%s]' % tag,
            detail=dict(delivered=len(w.delivered), sent=len(w.sent), was=good[pos], now=bad[pos]))
    return {'class': 'flip'}


def h_flip(c, case, tier):
    ct = case['crc']
    width = 2 if ct == 1 else 4
    n = case['n']
    w = BpWorld(node_id=NODE, ctr_cap=6)
    w.add_rx_route(r'^dtn://node/.+', 'deliver')
    w.add_tx_route('.*', mtu=None)
    data = c.sym_bytes_bv('d', n)
    # lifetime 2^32 + x: the fourth of its eight value octets is 1, the low three octets are symbolic
    if case['where'] == 'lifetime':
        lb = c.sym_bytes_bv('life', 3)
        lo3 = unpack_uint(list(SBuf.of(lb)[0].items)) if isinstance(lb, SBuf) else int.from_bytes(lb, 'big')
        life = 2 ** 32 + lo3
    else:
        life = 3600000
    pri = dict(flags=0, crc_type=ct, destination='dtn://node/app', source='dtn://src/app', report_to='dtn:none',
               create_ts=[2 ** 33, 5], lifetime=life)
    blocks = [dict(type=1, num=1, flags=0, crc_type=ct, data=data)]
    good = rfc9171.sealed_bundle(pri, blocks)
    items = good.lit_items() if isinstance(good, SBuf) else list(good)
    total = len(items)
    span = case.get('span', width)        # number of adjacent octets the error pattern may touch
    if case['where'] == 'data':
        start = total - 1 - (1 + width) - n
        lo, hi = start, start + n - span
    elif case['where'] == 'lifetime':
        e = rfc9171.enc
        arr = rfc9171.encode_primary(pri, crc=bytes(width))
        start = 1 + 1 + sum(blen(e(x)) for x in arr[:7]) + 1     # 0x9f, array head, seven items, uint head
        lo, hi = start + 3, start + 3      # the non-zero octet: the error may shorten the canonical encoding
    else:
        # the CRC field of the payload block: last `width` octets before the break
        lo = hi = total - 1 - width
    pos = lo + c.choose(hi - lo + 1, 'error-position')
    if c.mode == 'conc':
        if case.get('const'):
            pats = [1 << b for b in range(8)] + [0x03, 0xC0, 0xFF]
            masks = [pats[c.choose(len(pats), 'error-pattern')]]
        else:
            masks = [int(c.conc_inputs.get('e_%d' % k, 0)) for k in range(span)]
        bad_items = list(items)
        for k, m in enumerate(masks):
            bad_items[pos + k] = bad_items[pos + k] ^ m
        bad = bytes(bad_items)
    else:
        if case.get('const'):
            # CRC-32C: symbolic error patterns are beyond z3/cvc5 here (timeouts probed); constant patterns instead:
            # every single bit of the octet, and the 2-bit and 8-bit bursts inside it
            pats = [1 << b for b in range(8)] + [0x03, 0xC0, 0xFF]
            pat = pats[c.choose(len(pats), 'error-pattern')]
            masks = [z3.BitVecVal(pat, 8)]
        else:
            masks = [z3.BitVec('e_%d' % k, 8) for k in range(span)]
            for k, m in enumerate(masks):
                c.inputs.append(('e_%d' % k, m, 'bv'))
            c._assume(z3.Or(*[m != 0 for m in masks]))
        bad_items = list(items)
        for k, m in enumerate(masks):
            it = bad_items[pos + k]
            bv = bv_of(it) if isinstance(it, SInt) else z3.BitVecVal(int(it), 8)
            if bv is None:
                bv = z3.Int2BV(it.e, 8)
            bad_items[pos + k] = SInt(z3.BV2Int(bv ^ m))
        bad = SBuf.mk([Lit(bad_items)])
    w.recv(bad)
    w.run_idle(20)
    esc = w.escaped()
    c.prove(not esc, 'no-callback-exception', detail=[repr(e) for (_s, e) in esc])
    c.prove(len(w.delivered) == 0, 'corrupted-block-not-delivered[%s,crc%d]' % (case['where'], ct),
            detail=dict(delivered=len(w.delivered), pos=pos))
    c.prove(len(w.agent._seen_bundle_ident) == 0, 'corrupted-block-not-marked-seen[%s,crc%d]' % (case['where'], ct))
    # the uncorrupted encoding is accepted
    w.recv(good)
    w.run_idle(20)
    c.prove(len(w.delivered) == 1, 'intact-encoding-accepted[%s,crc%d]' % (case['where'], ct), detail=len(w.delivered))
    return {'class': 'flip'}
