''' C09 - TCPCL termination is graceful, complete and always finishes.

World of C01 plus terminate()/close()/peer-EOF events at chosen scheduler positions; safety
obligations on the wire (independent decoder) and on the signals, bounded liveness at quiescence. '''
from vf.engine import cur, blen
from vf.oracle import rfc9174
from checks.tcpcl_common import *

MANIFEST = {'text': 'Bounded symbolic model checking of termination: terminate() by either/both sides, close() and peer EOF at several scheduler positions of the C01 world; safety obligations on wire and signals, bounded liveness (quiescent and both sockets closed) decided per path.', 'note': 'Trusted: engine, stand-ins, independent decoder, z3. Timers off (C14). Bounds: bundles, segments, event positions, scheduler steps.', 'ref': '5 C09'}
BOUNDS = {
    'quick': dict(bundles='A->B in {0,1,2}, B->A in {0,1}', segments_per_bundle='<= 2',
                  events='terminate by A | B | both (same instant and staggered) | close() by A | EOF seen by A; '
                         'at 0/3/6/10/16 scheduler steps after the sends or at the end',
                  liveness='quiescence within 600 scheduler steps; a stuck open session is a violation',
                  sched='lowest-source-id-first', chunk='CHUNK_SIZE lifted to 2^72; reads deliver everything pending, or one message per read'),
    'thorough': dict(bundles='as quick', segments_per_bundle='<= 3', events='as quick, finer positions',
                     sched='plus 1 deviation'),
}
ASSUMPTIONS = [
    'timers off (keepalive 0, idle 0): C14 covers timer-driven termination',
    'terminate() is requested on an established session (before establishment the method raises to the caller '
    'and the session continues; that refusal is recorded in the evidence, not judged)',
    'TCP reliable; close()/EOF are delivered in order after pending octets',
]
REQUIRED_CLASSES = {'all': ['term-midflight', 'term-idle']}
MAX_PATHS = {'quick': 20000, 'thorough': 100000}
CASE_SECONDS = {'quick': 240, 'thorough': 3000}
QUICK_VALIDATE = 6


def cases(tier):
    out = []
    k = 2 if tier == 'quick' else 3
    for (na, nb) in ((0, 0), (1, 0), (1, 1), (2, 0)):
        for ev in ('termA', 'termB', 'termAB', 'termA-then-B'):
            out.append(dict(na=na, nb=nb, kseg=k if na + nb < 2 else 2, ev=ev, dev=0))
    for (na, nb) in ((1, 0), (1, 1)):
        for ev in ('closeA', 'eofA'):
            out.append(dict(na=na, nb=nb, kseg=2, ev=ev, dev=0))
    # one message per TCP read (instead of everything pending)
    for (na, nb) in ((2, 0), (1, 1)):
        for ev in ('termA', 'termB', 'termAB'):
            out.append(dict(na=na, nb=nb, kseg=2, ev=ev, dev=0, rx='msg'))
    # the other side queues a bundle at the moment of the terminate(): it has not seen the SESS_TERM yet, so its
    # transfer is legitimately started and must still complete
    for (na, nb) in (((0, 0), (1, 0)) if tier == 'quick' else ((0, 0), (1, 0), (1, 1))):
        for rx in (('msg',) if tier == 'quick' else ('all', 'msg')):
            out.append(dict(na=na, nb=nb, kseg=2, ev='termA', dev=0, late='B', rx=rx))
    # the peer's KEEPALIVE travels right behind its SESS_TERM (both in one read)
    for (na, nb) in ((0, 0), (1, 0), (1, 1)):
        out.append(dict(na=na, nb=nb, kseg=2, ev='termA', dev=0, ka=1))
    # network latency: one or two scheduling deviations let a side run its queue before it reads what has arrived
    for pt in ('4', '6'):
        out.append(dict(na=1, nb=0, kseg=1, ev='termA', dev=1, late='B', rx='msg', pts=pt))
    if tier == 'thorough':
        for pt in ('0', '2', '3', '5', '7', '8', '10'):
            out.append(dict(na=1, nb=0, kseg=1, ev='termA', dev=1, late='B', rx='msg', pts=pt))
        for pt in ('0', '3', '6', '10'):
            out.append(dict(na=1, nb=1, kseg=2, ev='termA', dev=1, pts=pt))
            out.append(dict(na=1, nb=1, kseg=2, ev='termAB', dev=1, pts=pt))
    return out


def harness(case, tier):
    c = cur()
    w = build_world(c, rx=case.get('rx', 'all'))
    ok = establish(w)
    c.prove(ok, 'established')
    if not ok:
        return {'class': 'not-established'}
    ev = case['ev']
    points = [0, 3, 6, 10, 16, 10 ** 6] if tier == 'quick' else [0, 1, 2, 3, 4, 6, 8, 10, 13, 16, 24, 10 ** 6]
    if case.get('pts'):
        points = [int(x) for x in str(case['pts']).split('/')]
    when = points[c.choose(len(points), 'event-point')]
    sent = {'A': [], 'B': []}
    for i in range(case['na']):
        sent['A'].append(queue_bundle(c, w, 'A', i, case['kseg']))
    for i in range(case['nb']):
        sent['B'].append(queue_bundle(c, w, 'B', i, case['kseg']))
    start = w.steps
    w.run(600, choose_budget=0 if (case.get('late') or case.get('pts')) else case['dev'], until=lambda: w.steps - start >= when)
    midflight = not (w.a.is_sess_idle() and w.b.is_sess_idle())

    # the reason code is the caller's (D-Bus type y): assigned, unassigned and private-use values
    reason = [0, 3, 6, 0xF0][c.choose(4, 'reason')] if ev in ('termA', 'termAB') else 0

    def term(h):
        if h._in_sess and not h._in_term:
            h.terminate(reason)
            return True
        return False

    did = []
    if ev in ('termA', 'termAB', 'termA-then-B'):
        did.append(('A', term(w.a)))
    if case.get('late') == 'B' and w.b._in_sess and not w.b._in_term:
        sent['B'].append(queue_bundle(c, w, 'B', 7, case['kseg']))
    if ev in ('termB', 'termAB'):
        did.append(('B', term(w.b)))
    if ev == 'termA-then-B':
        gap = [1, 2, 4][c.choose(3, 'stagger')]
        st2 = w.steps
        w.run(600, until=lambda: w.steps - st2 >= gap)
        did.append(('B', term(w.b)))
    if case.get('ka'):
        # run until B's SESS_TERM is on its way to A, then put a KEEPALIVE of B behind it
        def term_in_flight():
            if bool(blen(w.ba.buf) == 0):
                return False
            ms, _r = rfc9174.decode_stream(w.ba.total)
            return any(m['kind'] == 'SESS_TERM' for m in ms)
        w.run(900, until=term_in_flight)
        if term_in_flight():
            ka = rfc9174.encode(dict(kind='KEEPALIVE'))
            w.ba.buf = w.ba.buf + ka
            w.ba.total = w.ba.total + ka
    if ev == 'closeA':
        w.a.close()
    if ev == 'eofA':
        # the network drops the B->A direction: A reads EOF after pending octets
        w.ba.closed = True
    w.run(900, choose_budget=case['dev'])

    esc = w.escaped()
    c.prove(not esc, 'no-callback-exception', detail=[repr(e) for (_s, e) in esc])
    # bounded liveness: quiescent and both closed, nothing left scheduled
    c.prove('A' in w.closed_socks, 'liveness:A-closed[%s]' % ev, detail=dict(state=w.a._state, closed=w.closed_socks))
    c.prove('B' in w.closed_socks, 'liveness:B-closed[%s]' % ev, detail=dict(state=w.b._state, closed=w.closed_socks))

    ma, _ra = rfc9174.decode_stream(w.ab.total)
    mb, _rb = rfc9174.decode_stream(w.ba.total)
    graceful = ev.startswith('term')
    rfc9174.check_direction(c, ma, mb, 'A')
    rfc9174.check_direction(c, mb, ma, 'B')
    ta = [m for m in ma if m['kind'] == 'SESS_TERM']
    tb = [m for m in mb if m['kind'] == 'SESS_TERM']
    if graceful and any(d for (_s, d) in did):
        c.prove(len(ta) == 1 and len(tb) == 1, 'one-sess-term-per-side[%s]' % ev,
                detail=dict(a=len(ta), b=len(tb)))
        if len(ta) == 1 and len(tb) == 1:
            ra_ = bool((ta[0]['flags'] & 1) != 0)
            rb_ = bool((tb[0]['flags'] & 1) != 0)
            if ev in ('termA',):
                c.prove(not ra_ and rb_, 'reply-flag[%s]' % ev, detail=dict(a=ta[0]['flags'], b=tb[0]['flags']))
            elif ev == 'termB':
                c.prove(ra_ and not rb_, 'reply-flag[%s]' % ev, detail=dict(a=ta[0]['flags'], b=tb[0]['flags']))
            else:
                # simultaneous / staggered: an initiator never marks its own SESS_TERM as reply
                c.prove(not ra_, 'reply-flag[%s]' % ev, detail=dict(a=ta[0]['flags'], b=tb[0]['flags']))
    # transfers: started ones complete and are acknowledged; every queued bundle gets exactly one finished signal
    for (side, tx, rx, msgs) in (('A', w.a, w.b, ma), ('B', w.b, w.a, mb)):
        started = [m['transfer_id'] for m in msgs if m['kind'] == 'XFER_SEGMENT' and bool((m['flags'] & 2) != 0)]
        ended = [m['transfer_id'] for m in msgs if m['kind'] == 'XFER_SEGMENT' and bool((m['flags'] & 1) != 0)]
        fin = sig_index('send_bundle_finished', tx)
        for (tid, ln, data) in sent[side]:
            mine = [a for (_ix, a) in fin if a[0] == str(tid)]
            if graceful:
                c.prove(len(mine) == 1, 'every-queued-bundle-reported-once[%s]' % ev,
                        detail=dict(side=side, tid=tid, signals=mine, started=started))
            else:
                # an abrupt end: what was not acknowledged is reported as not sent, nothing is silently lost
                c.prove(len(mine) == 1, 'every-queued-bundle-reported-once[%s]' % ev, detail=dict(side=side, tid=tid, signals=mine))
                if len(mine) == 1 and mine[0][2] == 'success':
                    got = [q for q in rx.recv_bundle_get_queue() if q == str(tid)]
                    c.prove(len(got) == 1, 'success-only-for-delivered[%s]' % ev, detail=got)
            if graceful and tid in started:
                c.prove(tid in ended, 'started-transfer-completes[%s]' % ev, detail=dict(side=side, tid=tid))
                if len(mine) == 1:
                    c.prove(mine[0][2] == 'success', 'started-transfer-acknowledged[%s]' % ev, detail=mine)
                    got = [q for q in rx.recv_bundle_get_queue() if q == str(tid)]
                    c.prove(len(got) == 1, 'started-transfer-delivered[%s]' % ev, detail=got)
            if graceful and tid not in started and len(mine) == 1:
                c.prove(mine[0][2] != 'success', 'unstarted-not-reported-success[%s]' % ev, detail=mine)
    return {'class': 'term-midflight' if midflight else 'term-idle',
            'closed': sorted(w.closed_socks), 'kindsA': [m['kind'] for m in ma], 'kindsB': [m['kind'] for m in mb],
            'did': did,
            'signals': [(n, a) for (n, a) in w.signals() if n.endswith('finished')]}
