''' C10 - BP agent processes each received bundle at most once and routes by first match.

Up to three bundles (independent RFC 9171 writer) with symbolic identity components are received by the real
agent under an enumerated routing table; deliveries, forwards and reports are compared with an independent
functional model (first matching route; duplicates and own-source bundles ignored). '''
import re
from vf.engine import cur, blen, same_bytes, is_sym
from vf.oracle import rfc9171
from vf.bpenv import BpWorld

MANIFEST = {
    'text': 'Bounded symbolic model checking of recv_bundle / identity / static receive routing: three received '
            'bundles whose creation time, sequence number, fragment offset, total length and payload length are '
            'symbolic (the solver decides every equal/unequal pattern of look-alike identities), sources from a small '
            'set incl. the node itself; routing tables (first-match order, shadowing, no match) and destinations are '
            'enumerated; observed deliveries / forwards must equal an independent functional model.',
    'note': 'Trusted: engine, vf.symcbor, independent writer and routing model, z3. Regular expressions run '
            'concretely on a finite destination set (regex over arbitrary EIDs is outside the claim).',
    'ref': '5 C10'}
BOUNDS = {'quick': dict(bundles=3, tables=14, destinations=6, fragments='bundle 2 and 3 may be fragments'),
          'thorough': dict(bundles=3, tables=22, destinations=6, fragments='all may be fragments')}
ASSUMPTIONS = [
    'destinations and route patterns come from fixed lists; report-to is dtn:none (C19 covers reports)',
    'CRC type 0 on received bundles (C08 covers the CRC gate)',
]
REQUIRED_CLASSES = {'all': ['routed']}
QUICK_VALIDATE = 3
MAX_PATHS = {'quick': 20000, 'thorough': 100000}

NODE = 'dtn://node/'
DESTS = ['dtn://a/x', 'dtn://b/y', 'ipn:1.2', NODE, 'dtn://node/svc', 'dtn://nod']       # (the last: a look-alike of the node ID)
RX = {'A': r'^dtn://a/.*', 'ANY': r'.*', 'IPN': r'^ipn:1\.', 'NEVER': r'^never$', 'NODE': r'^dtn://node/.+'}
ACTS = ['deliver', 'forward', 'delete']


def cases(tier):
    tabs = [[]]
    for x in ACTS:
        tabs.append([('ANY', x)])
    for x in ACTS:
        for y in ACTS:
            if x != y:
                tabs.append([('A', x), ('ANY', y)])
                if tier == 'thorough' or (x, y) in (('deliver', 'forward'), ('delete', 'deliver')):
                    tabs.append([('ANY', x), ('A', y)])
    for x in ACTS:
        for y in ACTS:
            if x != y and (tier == 'thorough' or (x, y) in (('forward', 'deliver'), ('delete', 'forward'))):
                tabs.append([('NEVER', x), ('IPN', y), ('NODE', x)])
    out = []
    for i, t in enumerate(tabs):
        out.append(dict(table=';'.join('%s=%s' % e for e in t), drain='each'))
    # bundles arriving back to back: the event loop runs only after all three were received
    for t in ([('ANY', 'forward')], [('A', 'forward'), ('ANY', 'deliver')], [('ANY', 'delete')]):
        out.append(dict(table=';'.join('%s=%s' % e for e in t), drain='end'))
    # every bundle asks for status reports to a real endpoint: a report is evidence of processing, also for bundles
    # that are deleted or match no route
    for t in ([('ANY', 'delete')], [('A', 'delete'), ('ANY', 'forward')], [('ANY', 'deliver')], []):
        out.append(dict(table=';'.join('%s=%s' % e for e in t), drain='each', rep=1))
    return out


def expected_action(dest, table):
    ''' Independent model of the receive routing decision for one fresh bundle. '''
    if dest == NODE:
        return 'deliver'
    for (pat, act) in table:
        if re.compile(RX[pat]).match(dest) is not None:
            return act
    return None


def harness(case, tier):
    c = cur()
    table = [tuple(e.split('=')) for e in case['table'].split(';')] if case['table'] else []
    w = BpWorld(node_id=NODE, ctr_cap=30)
    for (pat, act) in table:
        w.add_rx_route(RX[pat], act)
    w.add_tx_route('.*', mtu=None)
    dest = DESTS[c.choose(len(DESTS), 'destination')]
    history = []
    exp_deliver = 0
    exp_forward = 0
    n = 3
    # sources: bundle 0 from a peer or from this node itself; bundle 1 from the same or another peer; bundle 2 as bundle 0
    src0 = ['dtn://src/a', NODE][c.choose(2, 'source0')]
    src1 = ['dtn://src/a', 'dtn://src/b'][c.choose(2, 'source1')]
    frags = bool(c.choose(2, 'later-bundles-are-fragments'))
    admin = cbor_admin()
    for i in range(n):
        src = [src0, src1, src0][i]
        frag = frags and i > 0
        t = c.sym_int('t%d' % i, 2 ** 32, 2 ** 32 + 1)
        s = c.sym_int('s%d' % i, 0, 1)
        ident = [src, t, s]
        pri = dict(flags=1 if frag else 0, crc_type=0, destination=dest, source=src, report_to='dtn:none',
                   create_ts=[t, s], lifetime=3600000)
        if case.get('rep'):
            pri['report_to'] = 'dtn://rep/svc'
            pri['flags'] |= 0x40000 | 0x20000 | 0x10000 | 0x4000
        if dest == NODE and not frag:
            # the administrative endpoint parses its payload: a well-formed (status) administrative record
            data = admin
            pri['flags'] = pri['flags'] | 2
        else:
            plen = c.sym_int('plen%d' % i, 0, 2, size=True) if frag else 1
            data = c.sym_blob('pay%d' % i, plen)
        if frag:
            off = c.sym_int('off%d' % i, 0, 1)
            tot = c.sym_int('tot%d' % i, 100, 101)      # never completed by two fragments of <= 2 octets
            pri['fragment_offset'], pri['total_adu_length'] = off, tot
            ident += ['frag', off, tot, blen(data)]
        wire = rfc9171.encode_bundle(pri, [dict(type=1, num=1, flags=0, crc_type=0, data=data)])
        before = (len(w.delivered), len(w.sent))
        w.recv(wire)
        if case['drain'] == 'each':
            w.run_idle(30)
        esc = w.escaped()
        c.prove(not esc, 'no-callback-exception', detail=[repr(e) for (_s, e) in esc])
        # independent model
        dup = False
        for h in history:
            if len(h['ident']) == len(ident) and all(bool(a == b) for a, b in zip(h['ident'], ident)):
                dup = True
        own = (src == NODE)
        act = None if (dup or own) else expected_action(dest, table)
        if not own and not dup:
            history.append(dict(ident=ident, src=src))
        elif not history:
            history.append(dict(ident=['none'], src=src0))
        # a fragment marked for delivery is held by reassembly, not delivered as such
        got_d = len(w.delivered) - before[0]
        new = w.sent[before[1]:]
        reports = [d for d in new if bool((rfc9171.decode_bundle(d)['primary']['flags'] & 2) != 0)] if case.get('rep') else []
        got_f = len(new) - len(reports)
        tag = 'dup' if dup else ('own' if own else 'fresh')
        want_d = 1 if (act == 'deliver' and not frag) else 0
        want_f = 1 if act == 'forward' else 0
        if case['drain'] == 'each':
            c.prove(got_d == want_d, 'deliveries-match-model[%s]' % tag,
                    detail=dict(i=i, dest=dest, table=table, action=act, got=got_d, want=want_d, frag=frag))
            c.prove(got_f == want_f, 'forwards-match-model[%s]' % tag,
                    detail=dict(i=i, dest=dest, table=table, action=act, got=got_f, want=want_f, frag=frag))
        if case.get('rep'):
            if dup or own:
                c.prove(len(reports) == 0, 'no-report-for-a-bundle-not-processed[%s]' % tag, detail=dict(i=i, reports=len(reports)))
            else:
                c.prove(len(reports) <= 1, 'at-most-one-report-per-bundle', detail=len(reports))
                if act is not None and not (frag and act == 'deliver'):
                    c.prove(len(reports) == 1, 'processed-bundle-is-reported[%s]' % act, detail=dict(i=i, reports=len(reports)))
        exp_deliver += want_d
        exp_forward += want_f
    if case['drain'] == 'end':
        w.run_idle(60)
        c.prove(not w.escaped(), 'no-callback-exception', detail=[repr(e) for (_s, e) in w.escaped()])
        c.prove(len(w.delivered) == exp_deliver, 'deliveries-match-model[back-to-back]',
                detail=dict(dest=dest, table=table, got=len(w.delivered), want=exp_deliver))
        c.prove(len(w.sent) == exp_forward, 'forwards-match-model[back-to-back]',
                detail=dict(dest=dest, table=table, got=len(w.sent), want=exp_forward))
    return {'class': 'routed', 'delivered': len(w.delivered), 'forwarded': len(w.sent)}


def cbor_admin():
    import cbor2
    return cbor2.dumps([1, [[[True], [False], [False], [False]], 0, [1, 0], [0, 0]]])
