''' C11 - Forwarding preserves the bundle and updates only the hop-by-hop blocks.

A bundle encoded by the independent RFC 9171 writer (symbolic primary fields, hop limit/count, age, block
numbers, opaque payload) is received by the real agent, routed "forward", and the octets handed to the
convergence layer are read back by the independent reader. '''
from vf.engine import cur, blen, same_bytes, is_sym
from vf.oracle import rfc9171
from vf.bpenv import BpWorld

MANIFEST = {
    'text': 'Bounded symbolic model checking of the real receive -> forward -> send path: lifetime, creation time, '
            'sequence number, hop limit/count, received age and the extension block numbers are symbolic, the '
            'payload is an opaque blob; presence of previous-node / hop-count (0,1,2) / age / unknown blocks and CRC '
            'types are enumerated; obligations on the transmitted octets (decoded independently): primary fields '
            'and payload unchanged, one previous-node block naming this node, every hop count +1, at most one age '
            'block, unique block numbers with payload = 1 last, CRC fields correct.',
    'note': 'Trusted: engine, vf.symcbor, crcmod stand-in with uninterpreted CRC over symbolic content, independent '
            'RFC 9171 reader/writer, z3. The real clock supplies "now".',
    'ref': '5 C11'}
BOUNDS = {'quick': dict(blocks='prev-node {0,1} x hop-count {0,1,2} x age {0,1} x unknown {0,1}', crc='all blocks type 0, 1 or 2'),
          'thorough': dict(blocks='as quick, each case with one (every second case with two) of: payload length and sequence number | the first two block numbers | received age and sequence number ranging over all CBOR head classes', crc='as quick')}
ASSUMPTIONS = [
    'creation time is in the past (age is non-negative); EIDs fixed text',
    'quick: sequence number, block numbers and received age below 24, payload below 256 octets, lifetime and time in [2^32,..) (one CBOR head class each)',
    'block numbers of received extension blocks are distinct and different from 1',
]
REQUIRED_CLASSES = {'all': ['forwarded']}
QUICK_VALIDATE = 4
MAX_PATHS = {'quick': 20000, 'thorough': 100000}


def cases(tier):
    out = []
    for prev in (0, 1):
        for hops in (0, 1, 2):
            for age in (0, 1):
                for unk in (0, 1):
                    if tier == 'quick' and (prev + hops + age + unk) not in (0, 1, 2) and not (hops == 1 and age == 1):
                        continue
                    out.append(dict(prev=prev, hops=hops, age=age, unk=unk, crc=2 if (prev + hops) % 2 else 1))
    out.append(dict(prev=1, hops=1, age=1, unk=1, crc=0))
    # a second bundle forwarded after a first one (state kept between bundles must not matter)
    # creation time zero (clockless source), lifetime zero, repeated previous-node / age blocks
    out.append(dict(prev=1, hops=1, age=1, unk=0, crc=1, ts0=1))
    out.append(dict(prev=0, hops=0, age=0, unk=0, crc=2, life0=1))
    out.append(dict(prev=2, hops=0, age=0, unk=0, crc=0))
    out.append(dict(prev=3, hops=0, age=2, unk=0, crc=1))
    out.append(dict(prev=0, hops=0, age=2, unk=0, crc=1, ts0=1))
    out.append(dict(prev=1, hops=1, age=3, unk=0, crc=0, ts0=1, life0=1))
    # reserved / unassigned bundle processing flags travel unchanged (with and without a primary-block CRC)
    out.append(dict(prev=0, hops=1, age=0, unk=0, crc=0, flags=0x100008, rep='none'))
    out.append(dict(prev=1, hops=0, age=1, unk=0, crc=2, flags=0x000080, rep='none'))
    out.append(dict(prev=0, hops=0, age=0, unk=1, crc=0, flags=0x200300 | 0x4, rep='none'))
    # report-request flags with and without a report-to endpoint
    out.append(dict(prev=1, hops=1, age=0, unk=0, crc=2, flags=0x10040, rep='none'))
    out.append(dict(prev=0, hops=0, age=1, unk=0, crc=1, flags=0x64060, rep='none'))
    out.append(dict(prev=0, hops=1, age=0, unk=0, crc=0, flags=0x10000, rep='real'))
    out.append(dict(prev=0, hops=1, age=0, unk=0, crc=1, warmup=1))
    out.append(dict(prev=1, hops=0, age=1, unk=1, crc=2, warmup=1))
    if tier != 'quick':
        # at most two kinds of field range over all CBOR head classes at once
        ws = ('P+seq', 'nums', 'age+seq')
        out = ([dict(x, wide=ws[i % 3]) if x['hops'] < 2 else dict(x) for i, x in enumerate(out)]
               + [dict(x, wide=ws[(i + 1) % 3]) for i, x in enumerate(out) if i % 2 == 0 and x['hops'] < 2])
    return out


def harness(case, tier):
    c = cur()
    w = BpWorld(node_id='dtn://node/', ctr_cap=8)
    w.add_rx_route(r'^dtn://far/.*', 'forward')
    w.add_tx_route('.*', mtu=None)
    ct = case['crc']
    if case.get('warmup'):
        # forward an unrelated bundle first
        wp = dict(flags=0, crc_type=0, destination='dtn://far/other', source='dtn://src/warm', report_to='dtn:none',
                  create_ts=[2 ** 33, 7], lifetime=2 ** 33)
        wb = [dict(type=7, num=2, flags=0, crc_type=0, data=rfc9171.enc(5)),
              dict(type=1, num=1, flags=0, crc_type=0, data=b'warm')]
        w.recv(rfc9171.sealed_bundle(wp, wb))
        w.run_idle(20)
        c.prove(len(w.sent) == 1, 'warmup-forwarded', detail=len(w.sent))
        del w.sent[:]
    wset = set(case.get('wide', '').split('+'))
    P = c.sym_int('P', 0, 2 ** 32 if 'P' in wset else 255, size=True)
    payload = c.sym_blob('payload', P)
    ts = c.sym_int('dtntime', 2 ** 32, 2 ** 39)    # before "now" (2^39 ms is the year 2017 in DTN time)
    seq = c.sym_int('seqno', 0, 2 ** 64 - 1 if 'seq' in wset else 23)
    life = c.sym_int('lifetime', 2 ** 32, 2 ** 64 - 1)
    if case.get('ts0'):
        ts = 0
    if case.get('life0'):
        life = 0
    pri = dict(flags=case.get('flags', 0), crc_type=ct, destination='dtn://far/app', source='dtn://src/app',
               report_to='dtn://rep/svc' if case.get('rep') == 'real' else 'dtn:none',
               create_ts=[ts, seq], lifetime=life)
    blocks = []
    nums = []

    def num(name):
        n = c.sym_int(name, 2, 2 ** 32 if ('nums' in wset and len(nums) < 2) else 23)
        for m in nums:
            c.assume(n != m)
        nums.append(n)
        return n
    hop_in = []
    for i in range(case['prev']):
        blocks.append(dict(type=6, num=num('n_prev%d' % i), flags=0, crc_type=ct, data=rfc9171.enc(rfc9171.eid_cbor('dtn://before%d/' % i))))
    for i in range(case['hops']):
        lim = c.sym_int('limit%d' % i, 24, 255)
        cnt = c.sym_int('count%d' % i, 0, 254)
        hop_in.append((lim, cnt))
        blocks.append(dict(type=10, num=num('n_hop%d' % i), flags=0, crc_type=ct, data=rfc9171.enc([lim, cnt])))
    for i in range(case['age']):
        blocks.append(dict(type=7, num=num('n_age%d' % i), flags=0, crc_type=ct, data=rfc9171.enc(c.sym_int('age_in%d' % i, 0, 2 ** 32 if 'age' in wset else 23))))
    unk_data = None
    if case['unk']:
        unk_data = c.sym_bytes('unk', 3)
        blocks.append(dict(type=200, num=num('n_unk'), flags=0, crc_type=ct, data=unk_data))
    blocks.append(dict(type=1, num=1, flags=0, crc_type=ct, data=payload))
    wire = rfc9171.sealed_bundle(pri, blocks)

    w.recv(wire)
    w.run_idle(20)
    esc = w.escaped()
    c.prove(not esc, 'no-callback-exception', detail=[repr(e) for (_s, e) in esc])
    # status reports (administrative records) may accompany the forwarded bundle
    fwd = []
    for d in w.sent:
        try:
            if bool((rfc9171.decode_bundle(d)['primary']['flags'] & 2) == 0):
                fwd.append(d)
        except rfc9171.Malformed:
            fwd.append(d)
    c.prove(len(fwd) == 1, 'forwarded-once', detail=dict(sent=len(w.sent), forwarded=len(fwd)))
    if len(fwd) != 1:
        return {'class': 'not-forwarded', 'n': len(w.sent)}
    try:
        out = rfc9171.decode_bundle(fwd[0])
    except rfc9171.Malformed as err:
        c.prove(False, 'forwarded-bundle-wellformed', detail=str(err))
        return {'class': 'malformed'}
    rx = rfc9171.decode_bundle(wire)
    p, q = out['primary'], rx['primary']
    for k in ('version', 'flags', 'destination', 'source', 'report_to', 'lifetime'):
        c.prove(p[k] == q[k], 'primary-unchanged[%s]' % k, detail=dict(got=p[k], want=q[k]))
    c.prove(p['create_ts'][0] == ts and p['create_ts'][1] == seq, 'primary-unchanged[timestamp]', detail=p['create_ts'])
    ob = out['blocks']
    c.prove(bool(ob[-1]['type'] == 1) and bool(ob[-1]['num'] == 1), 'payload-numbered-1-and-last',
            detail=[(b['type'], b['num']) for b in ob])
    c.prove(same_bytes(ob[-1]['data'], payload), 'payload-unchanged')
    c.prove(len([b for b in ob if bool(b['type'] == 1)]) == 1, 'one-payload-block')
    # previous node
    prevs = [b for b in ob if bool(b['type'] == 6)]
    c.prove(len(prevs) == 1, 'exactly-one-previous-node-block', detail=len(prevs))
    if len(prevs) == 1:
        c.prove(same_bytes(prevs[0]['data'], rfc9171.enc(rfc9171.eid_cbor('dtn://node/'))), 'previous-node-names-this-node',
                detail=prevs[0]['data'])
    # hop counts
    hops = [b for b in ob if bool(b['type'] == 10)]
    c.prove(len(hops) == len(hop_in), 'hop-count-blocks-kept', detail=len(hops))
    for (lim, cnt), b in zip(hop_in, hops):
        from vf import symcbor
        v = symcbor.loads(b['data'])
        c.prove(v[0] == lim, 'hop-limit-unchanged', detail=dict(got=v[0], want=lim))
        c.prove(v[1] == cnt + 1, 'hop-count-incremented-on-the-wire', detail=dict(got=v[1], received=cnt))
    ages = [b for b in ob if bool(b['type'] == 7)]
    c.prove(len(ages) <= 1, 'at-most-one-age-block', detail=len(ages))
    if ages:
        from vf import symcbor
        a = symcbor.loads(ages[0]['data'])
        c.prove(a >= 0, 'age-non-negative', detail=a)
    if case['unk']:
        u = [b for b in ob if bool(b['type'] == 200)]
        c.prove(len(u) == 1 and same_bytes(u[0]['data'], unk_data), 'unknown-block-kept')
    # unique block numbers
    for i in range(len(ob)):
        for j in range(i + 1, len(ob)):
            c.prove(ob[i]['num'] != ob[j]['num'], 'block-numbers-unique', detail=[b['num'] for b in ob])
    rfc9171.check_crcs(c, out, c.prove)
    return {'class': 'forwarded', 'blocks': len(ob), 'size': blen(fwd[0])}
