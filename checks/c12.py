''' C12 - A bundle with an unverifiable security block is never delivered.

Received bundles (independent RFC 9171 writer) carry 0..2 BIBs / BCBs.  Two harness kinds:
 * "stub": the security context registered for the blocks' context ID is replaced by one whose verify_* outcome
   is nondeterministic (None | any security reason code | raises), covering every way verification can go wrong;
 * "real": the real CoseContext with structural malformations (unknown context, missing target, duplicate
   parameter / result IDs, wrong result count, undecodable COSE message).
Observed: the recording application step, and the deletion report (reason code) sent to report-to. '''
from vf.engine import cur, blen, same_bytes, is_sym
from vf.oracle import rfc9171
from vf import symcbor
from vf.bpenv import BpWorld

MANIFEST = {
    'text': 'Bounded symbolic model checking of the receive-chain security steps (BCB at 19, BIB at 20) and the '
            'chain runner: per security block the verification outcome is nondeterministic (success, any security '
            'reason code as a symbolic integer, or an exception), for 0..2 BIBs and BCBs in every combination; plus '
            'the real COSE context on structurally malformed blocks.  Obligation: any failing block => the '
            'application step is not invoked, the bundle is deleted with a security reason (seen in the deletion '
            'report); all succeed => delivered once.',
    'note': 'Trusted: engine, vf.symcbor, independent writer/reader, z3. Cryptographic verification itself is '
            'abstracted by the nondeterministic outcome (C03/C16 look at what is fed to COSE).',
    'ref': '5 C12'}
BOUNDS = {'quick': dict(security_blocks='0..2 BIB x 0..2 BCB', outcomes='None | code in [12,16] | raise', real_malformations=11),
          'thorough': dict(security_blocks='0..3 BIB x 0..3 BCB', outcomes='as quick', real_malformations=11)}
ASSUMPTIONS = [
    'a security context reports failure by a reason code from the BPSec range 12..16 or by raising',
    'the bundle requests a deletion report to a real endpoint so that the recorded reason is observable',
]
REQUIRED_CLASSES = {'all': ['delivered', 'deleted']}
QUICK_VALIDATE = 3

NODE = 'dtn://node/'
SEC_REASONS = (12, 13, 14, 15, 16)


def cases(tier):
    out = []
    top = 2 if tier == 'quick' else 3
    for nbib in range(top + 1):
        for nbcb in range(top + 1):
            for accept in (0, 1):
                if nbib + nbcb == 0 and accept:
                    continue
                out.append(dict(kind='stub', nbib=nbib, nbcb=nbcb, accept=accept))
    for m in ('unknown-context', 'missing-target', 'dup-param', 'dup-result', 'result-count', 'garbage-cose', 'no-key',
              'undecodable-block', 'no-params', 'no-results', 'short-results'):
        for blk in ('bib', 'bcb'):
            out.append(dict(kind='real', malform=m, blk=blk))
    return out


def sec_block_data(targets, context_id, params, results, source='dtn://src/'):
    ''' BTSD of an abstract security block (RFC 9172 section 3.6): a CBOR sequence. '''
    e = rfc9171.enc
    out = e(list(targets)) + e(context_id) + e(1 if params is not None else 0) + e(rfc9171.eid_cbor(source))
    if params is not None:
        out = out + e([list(p) for p in params])
    out = out + e([[list(r) for r in tr] for tr in results])
    return out


class StubContext(object):
    ''' Security context with harness-decided outcomes. '''

    def __init__(self, outcomes, accept=False):
        self.outcomes = outcomes     # block number -> ('ok',) | ('code', v) | ('raise',)
        self.accept = accept
        self.calls = []

    def load_config(self, config):
        pass

    def apply_bib(self, ctr):
        pass

    def apply_bcb(self, ctr):
        pass

    def _do(self, ctr, blk):
        num = int(blk.block_num)
        self.calls.append(num)
        o = self.outcomes[num]
        if o[0] == 'raise':
            raise RuntimeError('verification blew up (model)')
        if o[0] == 'code':
            return o[1]
        if self.accept:
            # an accepting context removes the security block it has verified (as the COSE context does)
            ctr.remove_block(blk)
        return None

    def verify_bib(self, ctr, bib):
        return self._do(ctr, bib)

    def verify_bcb(self, ctr, bcb):
        return self._do(ctr, bcb)


def harness(case, tier):
    c = cur()
    w = BpWorld(node_id=NODE, ctr_cap=10, accept_after_verify=bool(case.get('accept')))
    w.add_rx_route(r'^dtn://node/.+', 'deliver')
    w.add_tx_route('.*', mtu=None)
    dest = 'dtn://node/app'
    payload = c.sym_blob('payload', c.sym_int('P', 0, 255, size=True))
    pri = dict(flags=0x40000, crc_type=0, destination=dest, source='dtn://src/app', report_to='dtn://rep/svc',
               create_ts=[c.sym_int('t', 2 ** 32, 2 ** 39), 0], lifetime=3600000)
    blocks = []
    expect_fail = False
    if case['kind'] == 'stub':
        outcomes = {}
        num = 2
        for kind, n in ((11, case['nbib']), (12, case['nbcb'])):
            for i in range(n):
                k = c.choose(3, 'outcome')
                if k == 0:
                    outcomes[num] = ('ok',)
                elif k == 1:
                    outcomes[num] = ('code', c.sym_int('code%d' % num, SEC_REASONS[0], SEC_REASONS[-1]))
                    expect_fail = True
                else:
                    outcomes[num] = ('raise',)
                    expect_fail = True
                blocks.append(dict(type=kind, num=num, flags=0, crc_type=0,
                                   data=sec_block_data([1], 3, None, [[(1, b'\x00')]])))
                num += 1
        w.agent._app['bpsec']._contexts[3] = StubContext(outcomes, accept=bool(case.get('accept')))
    else:
        kind = 11 if case['blk'] == 'bib' else 12
        m = case['malform']
        good_mac0 = symcbor._real.dumps([b'\xa1\x01\x05', {4: b'k1'}, None, b'\x00' * 32])   # COSE_Mac0, detached
        good_enc0 = symcbor._real.dumps([b'\xa1\x01\x03', {4: b'k1', 5: b'\x00' * 12}, None])
        good = (17, good_mac0) if kind == 11 else (16, good_enc0)
        params, results, targets, ctxid = [(5, {0: 1, -1: 1})], [[good]], [1], 3
        if m == 'unknown-context':
            ctxid = c.sym_int('ctxid', 4, 23)
        elif m == 'missing-target':
            targets = [7]
        elif m == 'dup-param':
            params = [(5, {0: 1}), (5, {0: 1})]
        elif m == 'dup-result':
            results = [[good, good]]
        elif m == 'result-count':
            results = [[]]
        elif m == 'garbage-cose':
            junk = [b'\xff', b'\x83\x40', b'\x00\x01\x02', b''][c.choose(4, 'junk')]
            results = [[(good[0], junk)]]
        elif m == 'no-key':
            pass     # well-formed message but no key with that kid in the (empty) key store
        elif m == 'no-params':
            params = None     # RFC 9172: the parameter list is optional
        elif m == 'no-results':
            results = []      # a target without any result list
        elif m == 'short-results':
            targets = [1, 3]  # two targets, one result list
            blocks.append(dict(type=200, num=3, flags=0, crc_type=0, data=b'\x01\x02'))
        expect_fail = True
        data = sec_block_data(targets, ctxid, params, results)
        if m == 'undecodable-block':
            # the security block's own structure is damaged: truncated, a bad scheme code in the security source,
            # targets not an array, or not CBOR at all
            good_data = bytes(data)
            data = [good_data[:-3], good_data.replace(b'\x82\x01', b'\x82\x09', 1), b'\x01' + good_data[2:], b'\xff'][c.choose(4, 'damage')]
        blocks.append(dict(type=kind, num=2, flags=0, crc_type=0, data=data))
    blocks.append(dict(type=1, num=1, flags=0, crc_type=0, data=payload))
    wire = rfc9171.encode_bundle(pri, blocks)
    w.recv(wire)
    w.run_idle(30)
    esc = w.escaped()
    tag = case.get('malform', 'stub')
    c.prove(not esc, 'no-callback-exception[%s]' % tag, detail=[repr(e) for (_s, e) in esc])
    delivered = len(w.delivered)
    reports = []
    for d in w.sent:
        b = rfc9171.decode_bundle(d)
        if bool((b['primary']['flags'] & 2) != 0):
            reports.append(b)
    if expect_fail:
        c.prove(delivered == 0, 'unverifiable-bundle-not-delivered[%s]' % tag, detail=delivered)
        c.prove(len(reports) == 1, 'deletion-reported[%s]' % tag, detail=len(reports))
        for b in reports:
            pay = [x for x in b['blocks'] if bool(x['type'] == 1)][0]
            rec = symcbor.loads(pay['data'])
            st = rec[1][0]
            reason = rec[1][1]
            c.prove(bool(st[3][0]), 'reported-as-deleted[%s]' % tag, detail=repr(st))
            c.prove(not bool(st[2][0]), 'not-reported-as-delivered[%s]' % tag, detail=repr(st))
            c.prove((reason >= 12) & (reason <= 16), 'deleted-with-security-reason[%s]' % tag, detail=reason)
        return {'class': 'deleted', 'delivered': delivered, 'reports': len(reports)}
    c.prove(delivered == 1, 'verified-bundle-delivered-once', detail=delivered)
    c.prove(not reports, 'no-deletion-report-for-verified-bundle', detail=len(reports))
    if delivered == 1:
        got = w.delivered[0].block_num(1).getfieldval('btsd')
        c.prove(same_bytes(got, payload), 'delivered-payload-unchanged')
    return {'class': 'delivered', 'delivered': delivered}
