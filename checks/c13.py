''' C13 - UDPCL transfers arrive intact and no datagram exceeds the MTU.

The real udpcl.agent.Agent._send_transfer generator runs on a bundle of symbolic length (opaque blob) under a
symbolic MTU; the produced datagrams are decoded independently, then fed to the real _recv_datagram of a second
agent in every permutation, with duplicates, interleaved with another transfer and packed several per datagram. '''
import itertools
import ipaddress
from vf.engine import cur, blen, same_bytes, is_sym, Cut
from vf import symcbor
from vf.symio import BytesIO

MANIFEST = {
    'text': 'Bounded symbolic model checking of UDPCL segmentation and reassembly: bundle length L in [0,2^32] and '
            'MTU in [1,2^32] symbolic (each path covers a CBOR head-size class), transfer id symbolic; every datagram '
            'is checked against the MTU and decoded independently (offsets/lengths tile [0,L)); the receiver is fed '
            'every arrival permutation of <= 3 segments, a duplicate at every position, a second interleaved transfer '
            '(other id / other peer) and multi-message datagrams; range_encode/range_decode round trip on symbolic '
            'interval sets.',
    'note': 'Trusted: engine, vf.symcbor, portion stand-in (package absent: cannot be diff-tested), symbolic io twins, '
            'z3. Sockets, pacing and DTLS are not involved (generator and receive function are called at their boundary).',
    'ref': '5 C13'}
BOUNDS = {'quick': dict(segments='<= 3 (more are cut)', receiver='all permutations, one duplicate, second transfer (other id | other address | other port of the same address), packing'),
          'thorough': dict(segments='<= 4 and <= 5', receiver='all permutations of <= 4 segments; duplicates and a second transfer also with 3 segments in 3 orders')}
ASSUMPTIONS = [
    'each segment is received at least once; datagrams are not corrupted',
    'portion stand-in semantics (closedopen over integers, adjacency merging)',
]
REQUIRED_CLASSES = {'all': ['single', 'segmented', 'ranges']}
QUICK_VALIDATE = 3
MAX_PATHS = {'quick': 20000, 'thorough': 100000}


def cases(tier):
    out = [dict(kind='send', k=3 if tier == 'quick' else 4)]
    if tier != 'quick':
        out.append(dict(kind='send', k=5))
    for n in ((2, 3) if tier == 'quick' else (2, 3, 4)):
        for perm in itertools.permutations(range(n)):
            out.append(dict(kind='recv', n=n, order=''.join(map(str, perm)), extra='none'))
    if tier != 'quick':
        for order in ('012', '120', '201'):
            for extra in ('dup', 'dup-late', 'other-id', 'other-peer', 'other-port'):
                out.append(dict(kind='recv', n=3, order=order, extra=extra))
    out.append(dict(kind='recv', n=2, order='01', extra='dup'))
    out.append(dict(kind='recv', n=2, order='10', extra='dup-late'))
    out.append(dict(kind='recv', n=2, order='01', extra='other-id'))
    out.append(dict(kind='recv', n=2, order='01', extra='other-peer'))
    out.append(dict(kind='recv', n=2, order='01', extra='other-port'))
    out.append(dict(kind='recv', n=2, order='01', extra='packed'))
    out.append(dict(kind='recv', n=1, order='0', extra='padding'))
    out.append(dict(kind='ranges'))
    return out


def make_agent(mtu, node_id='dtn://u/'):
    from gi.repository import GLib
    import dbus.service
    import udpcl.agent
    import udpcl.config
    GLib.reset()
    dbus.service.reset()
    cfg = udpcl.config.Config()
    cfg.node_id = node_id
    cfg.mtu_default = mtu
    return udpcl.agent.Agent(cfg, bus_kwargs=dict(conn=None, object_path='/org/ietf/dtn/udpcl/Agent'))


def send(c, agent, data, tid, cap):
    ''' Run the real generator; at most cap datagrams (unwinding bound). '''
    import udpcl.agent as UA
    item = UA.BundleItem(address='10.0.0.9', port=4556, file=BytesIO(data), transfer_id=tid)
    item.file.seek(0, 2)
    item.total_length = item.file.tell()
    item.file.seek(0)
    out = []
    symcbor_calls = [0]
    for d in agent._send_transfer(item):
        out.append(d)
    return out


def decode_segment(d):
    m = symcbor.loads(d)
    if not isinstance(m, dict):
        return None
    v = m.get(2)
    return v


class DumpGuard(object):
    ''' Unwinding bound on the segmentation loop: counts cbor2.dumps calls of the sender. '''

    def __init__(self, cap):
        self.cap = cap
        self.n = 0
        self.real = symcbor.dumps

    def __enter__(self):
        def dumps(obj, **kw):
            self.n += 1
            if self.n > self.cap:
                raise Cut('more than %d segment encodings' % self.cap)
            return self.real(obj, **kw)
        symcbor.dumps = dumps
        return self

    def __exit__(self, *a):
        symcbor.dumps = self.real


def harness(case, tier):
    c = cur()
    if case['kind'] == 'ranges':
        return h_ranges(c)
    if case['kind'] == 'send':
        return h_send(c, case)
    return h_recv(c, case)


def h_send(c, case):
    K = case['k']
    L = c.sym_int('L', 0, 2 ** 32, size=True)
    mtu = c.sym_int('mtu', 1, 2 ** 32, size=True)
    tid = c.sym_int('tid', 0, 2 ** 32)
    data = c.sym_blob('bundle', L)
    ag = make_agent(mtu)
    try:
        with DumpGuard(K + 3) as g:
            dgrams = send(c, ag, data, tid, K)
    except RuntimeError as err:
        # the sender refuses: nothing is emitted (the MTU cannot carry a single octet of the transfer)
        c.prove(mtu <= 60, 'refuses-only-tiny-mtu', detail=dict(mtu=mtu, L=L, err=str(err) if not is_sym(mtu) else 'refused'))
        return {'class': 'refused'}
    except Cut:
        # legitimately long (L needs more than K segments) or not making progress?
        c.prove(L > K, 'segmentation-terminates', detail=dict(L=L, mtu=mtu))
        if c.mode == 'conc':
            return {'class': 'cut'}
        raise
    for d in dgrams:
        c.prove(blen(d) <= mtu, 'datagram-within-mtu', detail=dict(size=blen(d), mtu=mtu, L=L, n=len(dgrams)))
    if len(dgrams) == 1 and decode_or_none(dgrams[0]) is None:
        c.prove(same_bytes(dgrams[0], data), 'single-datagram-is-the-bundle')
        return {'class': 'single', 'sizes': [blen(d) for d in dgrams]}
    off = 0
    for i, d in enumerate(dgrams):
        v = decode_or_none(d)
        c.prove(v is not None and len(v) == 4, 'segment-wellformed', detail=i)
        if v is None:
            continue
        c.prove(v[0] == tid, 'segment-transfer-id')
        c.prove(v[1] == L, 'segment-total-length', detail=dict(got=v[1], want=L))
        c.prove(v[2] == off, 'segments-contiguous', detail=dict(i=i, got=v[2], want=off))
        c.prove(same_bytes(v[3], data[off:off + blen(v[3])]), 'segment-data-is-bundle-slice')
        c.prove(blen(v[3]) > 0, 'segment-non-empty', detail=dict(i=i, mtu=mtu, L=L))
        off = off + blen(v[3])
    c.prove(off == L, 'segments-cover-bundle', detail=dict(covered=off, L=L))
    return {'class': 'segmented', 'sizes': [blen(d) for d in dgrams]}


def decode_or_none(d):
    ''' Extension-map message -> TRANSFER value; a bare bundle (not a CBOR map) -> None. '''
    from vf.engine import SBuf, Lit
    if not bool(blen(d) != 0):
        return None
    if isinstance(d, SBuf):
        pieces = [p for p in d.pieces if isinstance(p, Lit) or not cur().must(p.length == 0)]
        if not pieces or not isinstance(pieces[0], Lit):
            return None        # starts with opaque bundle content: not an extension map
        first = pieces[0].items[0]
    else:
        first = d[0]
    if is_sym(first):
        return None
    if (first >> 5) != 5:
        return None
    return decode_segment(d)


def conv(addr='10.0.0.7', port=4556):
    import udpcl.agent as UA
    return UA.Conversation(family=2, peer_address=ipaddress.ip_address(addr), peer_port=port,
                           local_address=ipaddress.ip_address('10.0.0.1'), local_port=4556)


def segments_for(c, name, n, tid, small=False):
    ''' n segments of a symbolic-length bundle, built by the independent encoder (offset order). '''
    hi = 23 if small else 2 ** 16
    L = c.sym_int('L' + name, n, hi, size=True)
    data = c.sym_blob('bundle' + name, L)
    cuts = [0]
    for i in range(1, n):
        ci = c.sym_int('cut%s%d' % (name, i), 1, hi, size=True)
        c.assume(ci > cuts[-1])
        cuts.append(ci)
    c.assume(L > cuts[-1])
    cuts.append(L)
    segs = []
    for i in range(n):
        o, e = cuts[i], cuts[i + 1]
        segs.append(symcbor.dumps({2: [tid, L, o, data[o:e]]}))
    return L, data, segs


def h_recv(c, case):
    from gi.repository import GLib
    import dbus.service
    n = case['n']
    tid = c.sym_int('tid', 0, 2 ** 32)
    ag = make_agent(None)
    L, data, segs = segments_for(c, 'A', n, tid)
    seq = [('A', int(ch)) for ch in case['order']]
    extra = case['extra']
    other = None
    peers = {'A': conv(), 'B': conv()}
    if extra == 'dup':
        seq = [seq[0], seq[0]] + seq[1:]
    elif extra == 'dup-late':
        seq = seq + [seq[0]]
    elif extra in ('other-id', 'other-peer', 'other-port'):
        tid2 = c.sym_int('tid2', 0, 2 ** 32)
        if extra == 'other-id':
            c.assume(tid2 != tid)
        else:
            tid2 = tid
            # the same transfer id from another address, or from another port of the same address
            peers['B'] = conv('10.0.0.8') if extra == 'other-peer' else conv('10.0.0.7', 4557)
        L2, data2, segs2 = segments_for(c, 'B', 2, tid2, small=True)
        other = (L2, data2, segs2)
        seq = [seq[0], ('B', 0)] + seq[1:] + [('B', 1)]
    arrived = {'A': set(), 'B': set()}
    delivered = {'A': [], 'B': []}

    escaped = []

    def feed(dgram, who):
        before = list(ag.recv_bundle_get_queue())
        try:
            ag._recv_datagram(None, dgram, peers[who])
        except Exception as err:
            # (the main loop logs an exception of a callback and carries on)
            escaped.append(repr(err))
        after = list(ag.recv_bundle_get_queue())
        return [b for b in after if b not in before]

    if extra == 'packed':
        # both segments in one datagram, then a datagram of padding only
        new = feed(segs[0] + segs[1], 'A')
        arrived['A'].update((0, 1))
        delivered['A'] += new
        delivered['A'] += feed(b'\x00\x00\x00', 'A')
    elif extra == 'padding':
        new = feed(segs[0] + b'\x00' * 5, 'A')
        arrived['A'].add(0)
        delivered['A'] += new
    else:
        for (who, i) in seq:
            d = segs[i] if who == 'A' else other[2][i]
            new = feed(d, who)
            arrived[who].add(i)
            delivered[who] += new
            want = {'A': n, 'B': 2}
            for w in ('A', 'B'):
                complete = len(arrived[w]) == want[w]
                c.prove((len(delivered[w]) >= 1) == complete if not (w == 'B' and other is None) else True,
                        'queued-iff-all-octets-present[%s]' % w, detail=dict(arrived=sorted(arrived[w]), delivered=delivered[w]))
    c.prove(len(delivered['A']) == 1, 'exactly-one-copy-queued[A]', detail=delivered['A'])
    if len(delivered['A']) == 1:
        got = ag.recv_bundle_pop_data(delivered['A'][0])
        got = getattr(got, 'buf', got)
        c.prove(same_bytes(got, data), 'queued-bundle-equals-original[A]', detail=dict(got=got))
    if other is not None:
        c.prove(len(delivered['B']) == 1, 'exactly-one-copy-queued[B]', detail=delivered['B'])
        if len(delivered['B']) == 1:
            got = ag.recv_bundle_pop_data(delivered['B'][0])
            got = getattr(got, 'buf', got)
            c.prove(same_bytes(got, other[1]), 'queued-bundle-equals-original[B]', detail=dict(got=got))
    # D-Bus types of what crossed the boundary (C18, UDPCL part)
    from vf import dbussig
    for (kind, iface, name, sig, args, obj) in dbus.service.EMITTED:
        res = dbussig.check(sig, list(args), '%s %s' % (kind, name))
        c.prove(not res.problems, 'dbus-type[%s]' % name, detail=res.problems)
        for (cond, text) in res.obligations:
            c.prove(cond, 'dbus-range[%s]' % name, detail=text)
    return {'class': 'segmented', 'queued': len(delivered['A']) + len(delivered['B'])}


def h_ranges(c):
    import portion
    import udpcl.agent as UA
    n = c.choose(4, 'intervals')
    ivs = portion.empty()
    last = 0
    bounds = []
    for i in range(n):
        lo = c.sym_int('lo%d' % i, 0, 2 ** 32)
        hi = c.sym_int('hi%d' % i, 0, 2 ** 32)
        c.assume(lo > last if i else lo >= 0)    # disjoint, non-adjacent, increasing
        c.assume(hi > lo)
        last = hi
        bounds.append((lo, hi))
        ivs = ivs | portion.closedopen(lo, hi)
    pairs = UA.range_encode(ivs)
    back = UA.range_decode(pairs)
    c.prove(len(pairs) == 2 * n, 'range-encode-two-ints-per-interval', detail=len(pairs))
    c.prove(back == ivs, 'range-decode-inverts-encode', detail=dict(pairs=pairs))
    for v in pairs:
        c.prove(v >= 0, 'range-encoding-non-negative', detail=v)
    return {'class': 'ranges', 'n': n}
