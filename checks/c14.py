''' C14 - TCPCL negotiates parameters correctly and keeps its timers.

Two real endpoints with symbolic keepalive values, idle times, MRUs and segment sizes over the GLib
stand-in's virtual clock; negotiation results, KEEPALIVE / idle-timeout behaviour against virtual time, and
the segment-size clamp under adaptive sizing (controller output over-approximated by an arbitrary integer). '''
from vf.engine import same_bytes, cur, blen, smin, is_sym
from vf.oracle import rfc9174
from gi.repository import GLib
from checks.tcpcl_common import *

MANIFEST = {
    'text': 'Bounded symbolic model checking of SESS_INIT negotiation and the timer handlers: keepalive values '
            '(0..65535), idle time, MRUs and initial segment size are symbolic; the virtual clock is advanced from '
            'deadline to deadline (deadlines are symbolic terms) for up to 3 timer expiries with and without '
            'traffic in between; adaptive segment sizing is run with the PID output replaced by an arbitrary '
            'integer (every float result is havoc), so the clamp obligation covers any controller value.',
    'note': 'Trusted: engine, GLib stand-in with virtual clock, independent decoder, z3. The float controller '
            'arithmetic itself is not encoded (over-approximated); ACK arrival strictly after transmission.',
    'ref': '5 C14'}
BOUNDS = {
    'quick': dict(timer_expiries='<= 3', traffic='none | one bundle before the first expiry', modulation_steps='<= 2 ACKs',
                  fields='keepalive A/B in [0,65535], idle in [0,2^31), MRUs and segment sizes in [1,2^64)'),
    'thorough': dict(timer_expiries='<= 4', traffic='as quick plus bundle between expiries', modulation_steps='<= 3 ACKs'),
}
ASSUMPTIONS = [
    'GLib timers fire exactly at their deadline when the loop is otherwise idle (virtual clock)',
    'every float computed from symbolic integers is an arbitrary value (over-approximation of the PID controller)',
    'an ACK is never timestamped at the same instant as its segment (delta_t > 0)',
    'no TLS',
]
REQUIRED_CLASSES = {'all': ['keepalive-on', 'keepalive-off']}
SMALL_LIMIT = 30000          # the slow-link case needs a segment larger than two 10240-octet chunks
QUICK_VALIDATE = 4


def cases(tier):
    out = [dict(kind='negotiate'), dict(kind='keepalive', traffic=0), dict(kind='keepalive', traffic=1),
           dict(kind='keepalive', traffic=2), dict(kind='keepalive', traffic=3),
           dict(kind='idle', peer='silent'), dict(kind='idle', peer='silent', pending=1), dict(kind='idle', peer='silent', ka=1), dict(kind='idle', peer='alive'),
           dict(kind='idle', peer='trickle'),
           dict(kind='modulate', acks=2)]
    if tier == 'thorough':
        out.append(dict(kind='modulate', acks=3))
    return out


def timers_of(h):
    return [s for s in GLib.STATE.sources.values() if s.kind == 'timeout' and getattr(s.func, '__self__', None) is h]


def harness(case, tier):
    c = cur()
    kind = case['kind']
    ka_a = c.sym_int('kaA', 0, 65535)
    ka_b = c.sym_int('kaB', 0, 65535)
    idle_a = c.sym_int('idleA', 0, 2 ** 31 - 1)
    mru_a = c.sym_int('mruA', 1, 2 ** 64 - 1, size=True)
    mru_b = c.sym_int('mruB', 1, 2 ** 64 - 1, size=True)
    seg_a = c.sym_int('segA', 1, 2 ** 64 - 1, size=True)
    extra_a = {}
    if kind == 'modulate':
        extra_a['modulate_target_ack_time'] = c.sym_int('target', 0, 1000)
    if kind == 'modulate':
        ka_a = ka_b = idle_a = 0
    if kind == 'keepalive':
        idle_a = 0
    if kind == 'idle' and not case.get('ka'):
        ka_a = 0
    w = World(mkcfg('dtn://a/', keepalive_time=ka_a, idle_time=idle_a, segment_size_mru=mru_a,
                    segment_size_tx_initial=seg_a, **extra_a),
              mkcfg('dtn://b/', keepalive_time=ka_b, idle_time=0, segment_size_mru=mru_b))
    if not (kind == 'keepalive' and case.get('traffic') == 3):
        w.a.CHUNK_SIZE = w.b.CHUNK_SIZE = BIG
    ok = establish(w)
    c.prove(ok, 'established')
    if not ok:
        return {'class': 'not-established'}
    ka = smin(ka_a, ka_b)
    on = not c.must(ka == 0)
    pa = w.a.get_session_parameters()
    pb = w.b.get_session_parameters()
    cls = 'keepalive-on' if on else 'keepalive-off'

    if kind == 'negotiate':
        c.prove(pa['keepalive'] == ka, 'negotiated-keepalive-is-min[A]', detail=dict(got=pa['keepalive'], kaA=ka_a, kaB=ka_b))
        c.prove(pb['keepalive'] == ka, 'negotiated-keepalive-is-min[B]')
        c.prove(pa['peer_nodeid'] == 'dtn://b/' and pb['peer_nodeid'] == 'dtn://a/', 'peer-node-id-as-announced',
                detail=dict(a=pa['peer_nodeid'], b=pb['peer_nodeid']))
        clamp = lambda v: smin(v, 2 ** 31 - 1)
        c.prove(pa['peer_segment_mru'] == clamp(mru_b), 'peer-segment-mru-as-announced[A]',
                detail=dict(got=pa['peer_segment_mru'], announced=mru_b))
        c.prove(pb['peer_segment_mru'] == clamp(mru_a), 'peer-segment-mru-as-announced[B]')
        c.prove(pa['peer_transfer_mru'] == 2 ** 31 - 1, 'peer-transfer-mru-as-announced[A]', detail=pa['peer_transfer_mru'])
        c.prove(w.a._send_segment_size <= mru_b, 'initial-segment-size-within-peer-mru')
        c.prove(w.a._send_segment_size == smin(seg_a, mru_b), 'initial-segment-size-is-min')
        # keepalive timer armed iff the negotiated value is non-zero, with the right period
        for (h, tag) in ((w.a, 'A'), (w.b, 'B')):
            kt = [s for s in timers_of(h) if s.func.__name__ == '_keepalive_timeout']
            if on:
                c.prove(len(kt) == 1, 'keepalive-timer-armed[%s]' % tag, detail=len(kt))
                if kt:
                    c.prove(kt[0].interval == ka * 1000, 'keepalive-period[%s]' % tag, detail=kt[0].interval)
            else:
                c.prove(not kt, 'keepalive-zero-disables-timer[%s]' % tag, detail=len(kt))
        return {'class': cls, 'params': [pa.get('keepalive'), pb.get('keepalive')]}

    if kind == 'keepalive':
        c.assume(ka > 0)
        # optional traffic strictly before the first deadline
        t_last = {'A': 0, 'B': 0}
        if case['traffic'] == 1:
            # A sends a bundle, B acknowledges: both transmit at dt, both deadlines move
            dt = c.sym_int('dt', 0, 65535 * 1000)
            c.assume(dt < ka * 1000)
            GLib.STATE.now_ms = dt
            ln = c.sym_int('len', 1, 2 ** 64 - 1, size=True)
            c.assume(ln <= w.a._send_segment_size)
            w.a.send_bundle_fileobj(BytesIO(c.sym_blob('bundle', ln)))
            w.run(300)
            t_last = {'A': dt, 'B': dt}
        elif case['traffic'] == 2:
            # octets arrive at A (a KEEPALIVE from the peer's direction) while A itself stays silent:
            # A's own keepalive deadline must not move
            dt = c.sym_int('dt', 1, 65535 * 1000)
            c.assume(dt < ka * 1000)
            GLib.STATE.now_ms = dt
            w.ba.buf = w.ba.buf + rfc9174.encode(dict(kind='KEEPALIVE'))
            w.run(300)
        elif case['traffic'] == 3:
            # a slow link: the keepalive interval elapses while one large segment is still being written (the real
            # 10240-octet chunking is in effect, the socket accepts 4096 octets at a time).  The KEEPALIVE must not
            # disturb the segment on the wire.
            ln = c.sym_int('len', 20000, 25000, size=True)
            c.assume(ln <= w.a._send_segment_size)
            data = c.sym_blob('bundle', ln)
            w.sock_a.send_limit = 4096
            w.a.send_bundle_fileobj(BytesIO(data))
            st0 = w.steps
            w.run(600, until=lambda: w.steps - st0 >= 6)     # a few steps only: most of the segment is still queued
            src = w.advance_to_next_timer()
            c.prove(src is not None, 'keepalive-timer-pending')
            due = [s for s in w.enabled(timers=True) if s.kind == 'timeout' and w.owner(s) == 'A']
            for s_ in due:
                w.dispatch(s_)
            w.sock_a.send_limit = None
            w.run(600)
            c.prove(not w.escaped(), 'no-callback-exception[slow-link]', detail=[repr(e) for (_s, e) in w.escaped()])
            try:
                ma, rest = rfc9174.decode_stream(w.ab.total)
                kinds = [m['kind'] for m in ma]
                c.prove(blen(rest) == 0 and kinds.count('XFER_SEGMENT') == 1, 'wire-stays-in-frame-with-keepalive-on-a-slow-link', detail=kinds)
            except rfc9174.Malformed as err:
                c.prove(False, 'wire-stays-in-frame-with-keepalive-on-a-slow-link', detail=str(err))
            q = w.b.recv_bundle_get_queue()
            c.prove(len(q) == 1, 'bundle-delivered-on-a-slow-link', detail=list(q))
            if len(q) == 1:
                got = w.b.recv_bundle_pop_data(q[0])
                got = getattr(got, 'buf', got)
                c.prove(same_bytes(got, data), 'bundle-intact-with-keepalive-on-a-slow-link', detail=dict(got=got))
            return {'class': cls}
        n_exp = 3 if tier == 'quick' else 4
        sent_ka = {'A': 0, 'B': 0}
        for i in range(n_exp):
            src = w.advance_to_next_timer()
            c.prove(src is not None, 'keepalive-timer-pending')
            if src is None:
                break
            now = GLib.STATE.now_ms
            due = [s for s in w.enabled(timers=True) if s.kind == 'timeout']
            sides = sorted(set(w.owner(s) for s in due))
            for s in due:
                w.dispatch(s)
            w.run(300)
            ma, _r = rfc9174.decode_stream(w.ab.total)
            mb, _r = rfc9174.decode_stream(w.ba.total)
            count = {'A': len([m for m in ma if m['kind'] == 'KEEPALIVE']),
                     'B': len([m for m in mb if m['kind'] == 'KEEPALIVE'])}
            for side in ('A', 'B'):
                expect_now = bool(now == t_last[side] + ka * 1000)
                if expect_now:
                    c.prove(count[side] == sent_ka[side] + 1, 'keepalive-sent-one-interval-after-last-transmission',
                            detail=dict(side=side, now=now, last=t_last[side], ka=ka, count=count[side], before=sent_ka[side]))
                    t_last[side] = now
                else:
                    c.prove(count[side] == sent_ka[side], 'no-keepalive-before-interval-elapsed',
                            detail=dict(side=side, now=now, last=t_last[side], ka=ka))
                    c.prove(now < t_last[side] + ka * 1000, 'keepalive-not-late',
                            detail=dict(side=side, now=now, last=t_last[side], ka=ka))
                sent_ka[side] = count[side]
        c.prove(not w.escaped(), 'no-callback-exception', detail=[repr(e) for (_s, e) in w.escaped()])
        c.prove(w.a._state == 'established' and w.b._state == 'established', 'keepalives-keep-session-up')
        return {'class': cls, 'keepalives': sent_ka}

    if kind == 'idle' and case.get('ka'):
        # keepalive negotiated (interval not longer than the idle time): the endpoint terminates, the peer is silent.
        # Its own KEEPALIVEs are not something heard from the peer: it still ends by closing.
        c.assume(idle_a > 0)
        c.assume(ka > 0)
        c.assume(ka <= idle_a)
        c.assume(idle_a <= 3 * ka)
        # the peer is dead: none of its timers runs any more
        for s_ in [x for x in list(GLib.STATE.sources.values()) if x.kind == 'timeout' and w.owner(x) == 'B']:
            GLib.source_remove(s_.sid)
        w.a.terminate(0)
        w.run(300, sides=('A',))
        for _ in range(8):
            if 'A' in w.closed_socks:
                break
            src = w.advance_to_next_timer()
            if src is None:
                break
            for s_ in [x for x in w.enabled(timers=True) if x.kind == 'timeout' and w.owner(x) == 'A']:
                w.dispatch(s_)
            w.run(300, sides=('A',))
        c.prove(not w.escaped(), 'no-callback-exception[terminating-and-silent,keepalive-on]', detail=[repr(e) for (_s, e) in w.escaped()])
        c.prove('A' in w.closed_socks, 'terminating-and-silent-ends-by-closing[keepalive-on]',
                detail=dict(state=w.a._state, now=GLib.STATE.now_ms))
        return {'class': cls}

    if kind == 'idle' and case['peer'] == 'trickle':
        # traffic that is not a whole message: one message of the peer arrives in two reads, each gap shorter than the
        # idle time but the message as a whole takes longer.  Octets received are traffic: the idle time counts
        # from the last read.
        c.assume(idle_a > 0)
        c.assume(ka_b == 0)
        d1 = c.sym_int('d1', 1, 2 ** 31 - 1)
        d2 = c.sym_int('d2', 1, 2 ** 31 - 1)
        c.assume(d1 < idle_a * 1000)
        c.assume(d2 < idle_a * 1000)
        msg = rfc9174.encode(dict(kind='XFER_SEGMENT', flags=3, transfer_id=c.sym_int('tid', 0, 2 ** 64 - 1), ext=[],
                                  data=c.sym_blob('segdata', c.sym_int('seglen', 1, 2 ** 32, size=True))))
        cut = [1, 5, 12, 21][c.choose(4, 'cut')]       # inside the header, or after it (inside the data)
        GLib.STATE.now_ms = d1
        w.ba.buf = w.ba.buf + msg[:cut]
        w.run(300)
        idl = [s for s in timers_of(w.a) if s.func.__name__ == '_idle_timeout']
        c.prove(len(idl) == 1 and bool(idl[0].due == d1 + idle_a * 1000) if idl else False, 'idle-time-counts-from-last-received-octets[first read]',
                detail=[s.due for s in idl])
        GLib.STATE.now_ms = d1 + d2
        w.ba.buf = w.ba.buf + msg[cut:]
        w.run(300)
        ma, _r = rfc9174.decode_stream(w.ab.total)
        c.prove(not [m for m in ma if m['kind'] == 'SESS_TERM'], 'no-idle-termination-while-octets-keep-arriving',
                detail=[m['kind'] for m in ma])
        src = w.advance_to_next_timer()
        c.prove(src is not None and src.func.__name__ == '_idle_timeout' and bool(GLib.STATE.now_ms == d1 + d2 + idle_a * 1000),
                'idle-time-counts-from-last-received-octets[second read]', detail=GLib.STATE.now_ms)
        c.prove(not w.escaped(), 'no-callback-exception[trickle]', detail=[repr(e) for (_s, e) in w.escaped()])
        return {'class': cls}

    if kind == 'idle':
        c.assume(idle_a > 0)
        c.assume(ka_b == 0)
        if case.get('pending'):
            # an own transfer is sent but never acknowledged: the peer has gone silent
            ln = c.sym_int('len', 1, 2 ** 64 - 1, size=True)
            c.assume(ln <= w.a._send_segment_size)
            w.a.send_bundle_fileobj(BytesIO(c.sym_blob('bundle', ln)))
            w.run(300, sides=('A',))
        src = w.advance_to_next_timer()
        c.prove(src is not None and src.func.__name__ == '_idle_timeout', 'idle-timer-armed')
        if src is None:
            return {'class': cls}
        c.prove(GLib.STATE.now_ms == idle_a * 1000, 'idle-fires-after-idle-time', detail=GLib.STATE.now_ms)
        w.dispatch(src)
        sides = ('A',) if case['peer'] == 'silent' else None
        w.run(300, sides=sides)
        ma, _r = rfc9174.decode_stream(w.ab.total)
        terms = [m for m in ma if m['kind'] == 'SESS_TERM']
        c.prove(len(terms) == 1 and terms[0]['reason'] == 1 and terms[0]['flags'] == 0, 'idle-timeout-starts-termination',
                detail=[(m['flags'], m['reason']) for m in terms])
        if case['peer'] == 'alive':
            c.prove('A' in w.closed_socks and 'B' in w.closed_socks, 'idle-termination-completes', detail=w.closed_socks)
        else:
            # the peer stays silent: the terminating endpoint must still end by closing
            for _ in range(2):
                src = w.advance_to_next_timer()
                if src is None:
                    break
                w.dispatch(src)
                w.run(300, sides=('A',))
            c.prove(not w.escaped(), 'no-callback-exception[terminating-and-silent]',
                    detail=[repr(e) for (_s, e) in w.escaped()])
            c.prove('A' in w.closed_socks, 'terminating-and-silent-ends-by-closing', detail=dict(state=w.a._state))
        return {'class': cls, 'closed': sorted(w.closed_socks)}

    if kind == 'modulate':
        n = case['acks']
        ln = c.sym_int('len', 1, 2 ** 64 - 1, size=True)
        floor = smin(smin(10240, mru_b), seg_a)
        c.assume(ln <= n * floor)
        w.a.send_bundle_fileobj(BytesIO(c.sym_blob('bundle', ln)))
        w.run(600)
        c.prove(not w.escaped(), 'no-callback-exception[modulate]', detail=[repr(e) for (_s, e) in w.escaped()])
        ma, _r = rfc9174.decode_stream(w.ab.total)
        for m in ma:
            if m['kind'] == 'XFER_SEGMENT':
                c.prove(m['length'] <= mru_b, 'segment-within-peer-mru-while-adapting',
                        detail=dict(length=m['length'], mru=mru_b))
        c.prove(w.a._send_segment_size <= mru_b, 'segment-size-clamped-to-peer-mru')
        fin = sig_index('send_bundle_finished', w.a)
        c.prove(len(fin) == 1 and fin[0][1][2] == 'success', 'transfer-completes-while-adapting', detail=[a for (_i, a) in fin])
        return {'class': cls}
    raise ValueError(kind)
