''' C15 - TCPCL enforces its TLS and peer-authentication policy.

One real endpoint (active or passive) with a scripted peer.  The ssl library and the X.509 parser are the
environment: the handshake outcome is nondeterministic, the peer certificate is a model with three lists of
symbolic identifiers (each identifier either equals the reference it would be compared with, or not).
The observed decision is compared with an independent statement of the policy. '''
import ssl
import types
import ipaddress
from vf.engine import cur, blen, mk_bool, is_sym, SInt
from vf.oracle import rfc9174
from checks.tcpcl_common import *

MANIFEST = {
    'text': 'Bounded symbolic model checking of the real contact/SESS_INIT handling and match_id: TLS capability '
            'flags of both sides, require_tls in {None,True,False}, handshake outcome, require_host/node flags, '
            'role, and a certificate of three SAN lists (0..2 entries each) whose entries symbolically match or '
            'differ from the peer address / DNS name / node ID; the observed outcome (SESS_INIT sent, established, '
            'SESS_TERM(contact failure), closed) must equal an independent policy formula on every path.',
    'note': 'Trusted: engine, stand-ins, the ssl/X.509 environment model (no real TLS, no real certificate '
            'parsing), the policy statement in the harness, z3.',
    'ref': '5 C15'}
BOUNDS = {'quick': dict(san_entries_per_type='0..2', roles='active, passive'),
          'thorough': dict(san_entries_per_type='0..3', roles='active, passive')}
ASSUMPTIONS = [
    'ssl handshake either succeeds or raises ssl.SSLError; certificate chain validation is OpenSSL\'s business',
    'certificate model: SAN lists of IP, DNS and URI identifiers; KeyUsage/EKU absent (only logged by the code)',
    'identifier comparison is equality (as in match_id)',
]
REQUIRED_CLASSES = {'all': ['proceeds', 'refused']}
MAX_PATHS = {'quick': 20000, 'thorough': 300000}
CASE_SECONDS = {'quick': 240, 'thorough': 3000}
QUICK_VALIDATE = 6

PEER_IP = '10.0.0.2'
PEER_DNS = 'peer.example'
PEER_NODE = 'dtn://peer/'


def cases(tier):
    out = []
    for role in ('active', 'passive'):
        for req in ('none', 'true', 'false'):
            out.append(dict(role=role, require_tls=req, dnsname=1 if role == 'active' else 0))
    out.append(dict(role='active', require_tls='none', dnsname=0))
    # the peer announces an empty node ID
    out.append(dict(role='active', require_tls='none', dnsname=1, emptynode=1))
    out.append(dict(role='passive', require_tls='true', dnsname=0, emptynode=1))
    # the TLS peer presents no certificate at all (a passive entity only asks for one)
    out.append(dict(role='passive', require_tls='none', dnsname=0, nocert=1))
    out.append(dict(role='passive', require_tls='true', dnsname=0, nocert=1))
    return out


class SymId(object):
    ''' A certificate identifier: var == 1 means "identical to the reference it is compared with". '''

    def __init__(self, kind, var, ref):
        self.kind = kind
        self.var = var
        self.ref = ref

    def __eq__(self, other):
        if other is None:
            return False
        if other == self.ref:
            return self.var == 1
        return False
    __req__ = __eq__

    def __hash__(self):
        return id(self)

    def __repr__(self):
        return '<%s-id %r>' % (self.kind, self.var)


class ModelCert(object):
    def __init__(self, x509, lists):
        self._x509 = x509
        self._lists = lists
        self.extensions = self

    def get_extension_for_oid(self, oid):
        x509 = self._x509
        if oid == x509.oid.ExtensionOID.SUBJECT_ALTERNATIVE_NAME:
            if not any(self._lists.values()):
                raise x509.ExtensionNotFound('no SAN', oid)
            return types.SimpleNamespace(value=self)
        raise x509.ExtensionNotFound('absent', oid)

    def get_values_for_type(self, t):
        x509 = self._x509
        if t is x509.IPAddress:
            return list(self._lists['ip'])
        if t is x509.DNSName:
            return list(self._lists['dns'])
        if t is x509.UniformResourceIdentifier:
            return list(self._lists['uri'])
        return []


class TlsSock(object):
    ''' Result of SSLContext.wrap_socket in the environment model. '''

    def __init__(self, sock, ok):
        self._s = sock
        self._ok = ok

    def do_handshake(self):
        if not self._ok:
            raise ssl.SSLError('handshake failure (model)')

    def cipher(self):
        return ('TLS_MODEL', 'TLSv1.3', 256)

    def getpeercert(self, binary_form=False):
        if getattr(self, 'nocert', False):
            return None
        return b'model-der' if binary_form else {}

    def __getattr__(self, name):
        return getattr(self._s, name)


def harness(case, tier):
    import tcpcl.session as S
    c = cur()
    passive = case['role'] == 'passive'
    this_can = c.sym_bool('this_can_tls')
    peer_can = c.sym_bool('peer_can_tls')
    hs_ok = c.sym_bool('handshake_ok')
    req_host = c.sym_bool('require_host')
    req_node = c.sym_bool('require_node')
    this_can = bool(this_can)
    peer_can = bool(peer_can)
    hs_ok = bool(hs_ok)
    req_host = bool(req_host)
    req_node = bool(req_node)
    req = {'none': None, 'true': True, 'false': False}[case['require_tls']]
    nmax = 2 if tier == 'quick' else 3
    lists = {}
    node = '' if case.get('emptynode') else PEER_NODE
    refs = {'ip': ipaddress.ip_address(PEER_IP), 'dns': PEER_DNS, 'uri': node}
    match = {}
    for kind in ('ip', 'dns', 'uri'):
        n = 0 if case.get('nocert') else c.choose(nmax + 1, 'san-count-' + kind)
        items = []
        for j in range(n):
            v = c.sym_int('%s%d' % (kind, j), 0, 0 if (kind == 'uri' and not node) else 1)   # a URI name is never empty
            items.append(SymId(kind, v, refs[kind]))
        lists[kind] = items
        match[kind] = [it.var for it in items]

    cfg = mkcfg('dtn://a/', tls_enable=this_can, require_tls=req, require_host_authn=req_host,
                require_node_authn=req_node)
    tls_used = []

    class Ctx_(object):
        def wrap_socket(self, sock, **kw):
            t = TlsSock(sock, hs_ok)
            t.nocert = bool(case.get('nocert'))
            tls_used.append(t)
            return t
    cfg.get_ssl_context = lambda: Ctx_()

    # environment: the X.509 parser returns the model certificate
    real_x509 = S.x509
    shim = types.SimpleNamespace(**{k: getattr(real_x509, k) for k in dir(real_x509) if not k.startswith('__')})
    def load_der(der, backend=None):
        if not isinstance(der, (bytes, bytearray)):
            # as cryptography does for anything but octets (e.g. None: the peer presented no certificate)
            raise TypeError("argument 'data': 'NoneType' object cannot be converted to 'PyBytes'")
        return ModelCert(real_x509, lists)
    shim.load_der_x509_certificate = load_der
    S.x509 = shim
    try:
        return run(c, S, case, cfg, passive, this_can, peer_can, hs_ok, req, req_host, req_node, match, lists, node)
    finally:
        S.x509 = real_x509


def run(c, S, case, cfg, passive, this_can, peer_can, hs_ok, req, req_host, req_node, match, lists, node):
    from vf.tcpclenv import Pipe, FakeSock
    from gi.repository import GLib
    import dbus.service
    GLib.reset()
    dbus.service.reset()
    w = types.SimpleNamespace(closed_socks=[])
    rx, tx = Pipe('peer>A'), Pipe('A>peer')
    sock = FakeSock('A', rx, tx, (PEER_IP, 4556), w)
    kw = dict(config=cfg, sock=sock)
    if passive:
        kw['fromaddr'] = (PEER_IP, 40000)
    else:
        kw['toaddr'] = ((PEER_DNS if case['dnsname'] else PEER_IP), 4556)
    h = S.ContactHandler(hdl_kwargs=kw, bus_kwargs=dict(conn=object(), object_path='/a'))
    h.CHUNK_SIZE = BIG
    h.start()

    def pump():
        for _ in range(200):
            en = []
            for sid in sorted(GLib.STATE.sources):
                s = GLib.STATE.sources[sid]
                if s.kind == 'idle':
                    en.append(s)
                elif s.kind == 'io' and getattr(s.chan, 'open', False):
                    if s.cond & GLib.IO_IN and (bool(blen(rx.buf) != 0) or rx.closed):
                        en.append(s)
                    elif s.cond & GLib.IO_OUT:
                        en.append(s)
            if not en:
                return
            GLib.dispatch(en[0].sid)
    pump()
    # reserved bits of the contact header flags are to be ignored by the receiver
    rsv = [0, 0x02, 0x80, 0xFE][c.choose(4, 'reserved-contact-flags')]
    rx.buf = rx.buf + rfc9174.encode(dict(kind='contact', flags=(1 if peer_can else 0) | rsv))
    pump()
    msgs1, _r = rfc9174.decode_stream(tx.total)
    sent_init_before_peer = any(m['kind'] == 'SESS_INIT' for m in msgs1)
    closed_early = 'A' in w.closed_socks
    if not closed_early:
        rx.buf = rx.buf + rfc9174.encode(dict(kind='SESS_INIT', keepalive=0, segment_mru=2 ** 64 - 1,
                                              transfer_mru=2 ** 64 - 1, node_id=node.encode(), ext=[]))
        pump()
    msgs, _r = rfc9174.decode_stream(tx.total)
    esc = GLib.STATE.escaped
    c.prove(not esc, 'no-callback-exception', detail=[repr(e) for (_s, e) in esc])

    # ---- independent policy
    attempt = this_can and peer_can
    exp_close = False
    if req is not None and attempt != req:
        exp_close = True
    secure = False
    if not exp_close and attempt:
        if hs_ok:
            secure = True
        else:
            exp_close = True
    if not exp_close and req is not None and secure != req:
        exp_close = True
    sent_init = any(m['kind'] == 'SESS_INIT' for m in msgs)
    terms = [m for m in msgs if m['kind'] == 'SESS_TERM']
    established = h._state == 'established'
    tag = 'tls' if secure else 'plain'
    if exp_close:
        c.prove(not sent_init, 'no-sess-init-when-tls-policy-violated', detail=dict(attempt=attempt, req=req, hs=hs_ok))
        c.prove(not established, 'not-established-when-tls-policy-violated')
        c.prove('A' in w.closed_socks, 'closed-when-tls-policy-violated', detail=dict(state=h._state))
        return {'class': 'refused', 'why': 'tls-policy'}
    c.prove(h.is_secure() == secure, 'tls-used-exactly-when-both-offer', detail=dict(secure=h.is_secure(), want=secure))
    if not secure:
        c.prove(established and sent_init and not terms, 'plain-session-established', detail=dict(state=h._state))
        return {'class': 'proceeds', 'why': 'plain'}

    def some(kind):
        return any(bool(v == 1) for v in match[kind])
    has_dns_ref = (not passive) and bool(case['dnsname'])
    ip_present, dns_present, uri_present = bool(match['ip']), bool(match['dns']), bool(match['uri'])
    ip_ok, dns_ok, uri_ok = some('ip'), some('dns') and has_dns_ref, some('uri')
    contradiction = (ip_present and not ip_ok) or (has_dns_ref and dns_present and not dns_ok) or (uri_present and not uri_ok)
    host_authn = ip_ok or dns_ok
    ok = (not contradiction) and (host_authn or not req_host) and (uri_ok or not req_node)
    detail = dict(ip=[repr(v) for v in match['ip']], dns=[repr(v) for v in match['dns']], uri=[repr(v) for v in match['uri']],
                  req_host=req_host, req_node=req_node, has_dns_ref=has_dns_ref, state=h._state,
                  terms=[(m['flags'], m['reason']) for m in terms])
    if ok:
        c.prove(established and not terms, 'authenticated-session-established', detail=detail)
        p = h.get_session_parameters()
        if uri_ok:
            c.prove(p.get('authn_nodeid') == node, 'authn-node-id-reported', detail=p.get('authn_nodeid'))
        return {'class': 'proceeds', 'why': 'authenticated'}
    why = 'contradiction' if contradiction else ('host-required' if (req_host and not host_authn) else 'node-required')
    c.prove(not established, 'not-established-when-authentication-fails[%s]' % why, detail=detail)
    c.prove(len(terms) == 1 and terms[0]['reason'] == 4, 'contact-failure-sent-when-authentication-fails[%s]' % why,
            detail=detail)
    return {'class': 'refused', 'why': why}
