''' C16 - COSE confidentiality blocks encrypt, bind context and decrypt exactly.

A source agent applies a BCB through the real transmit chain (apply_bcb, external AAD construction, COSE_Encrypt0 /
COSE_Encrypt with the ciphertext detached into the target block); the transmitted octets are read by the
independent RFC 9171 reader, altered in one place and received by a second real agent (verify_bcb /
verify_bcb_target / decode_msg re-attaching the ciphertext, key selection by kid, key unwrap).  pycose's message
and recipient classes run as they are over ideal primitives (vf/idealcose.py): decryption returns the plaintext iff
the ciphertext was issued for the same key, nonce and additional authenticated data (compared symbolically). '''
import re
import z3
from vf.engine import cur, blen, same_bytes, is_sym, SBuf, Lit, SInt
from vf.oracle import rfc9171
from vf import symcbor, idealcose
from vf.bpenv import BpWorld

MANIFEST = {
    'text': 'Bounded symbolic model checking of BCB apply/verify under ideal cryptography: plaintext (0, 4 or 12 '
            'symbolic octets), lifetime, creation time are symbolic; content-encryption modes COSE_Encrypt0 with a '
            'direct key and COSE_Encrypt with an AES key-wrap recipient.  Obligations: the transmitted target '
            'block data is the ciphertext issued for exactly the original plaintext and no octet of the '
            'transmitted bundle depends on a plaintext variable; the receiver with the key delivers exactly the '
            'original plaintext; after a symbolic change (any other value) of one item - ciphertext octet, '
            'lifetime, creation time, destination, target block flags, security source, AAD-scope parameter, '
            'protected header, IV, wrapped key, receiver key - nothing is delivered and the target block never '
            'holds the plaintext; changes outside the declared scope (another block, the BCB block flags) still '
            'decrypt.',
    'note': 'Trusted: engine, vf.symcbor, the ideal-primitive layer under pycose (AES-GCM / AES-KW strength '
            'assumed), independent reader/writer used to alter the wire, z3.',
    'ref': '5 C16'}
BOUNDS = {'quick': dict(modes='direct key (Encrypt0), wrapped key (Encrypt + A256KW)', plaintext='0 and 4 symbolic octets', alterations=13),
          'thorough': dict(modes='as quick', plaintext='0, 4 and 12 symbolic octets', alterations=13)}
ASSUMPTIONS = [
    'ideal AEAD / key wrap: decryption succeeds iff same key, nonce, AAD and the identical ciphertext; ciphertexts are '
    'opaque tokens (length plaintext + 16) independent of the plaintext',
    'one target (the payload block); AAD scope as produced by the source (primary block and target metadata)',
    'content key and IV fixed by configuration, as in the repository\'s own tests; asymmetric keys are not a '
    'content-encryption mode of the property (see DESIGN.md)',
]
REQUIRED_CLASSES = {'all': ['decrypted', 'rejected']}
QUICK_VALIDATE = 3
QTIMEOUT_MS = {'quick': 30000, 'thorough': 60000}

ALTER = ['none', 'ciphertext-octet', 'lifetime', 'timestamp', 'destination', 'target-flags', 'sec-source', 'aad-scope',
         'protected-header', 'iv', 'wrong-key', 'unrelated-block', 'bcb-block-flags']
OUT_OF_SCOPE = {'none', 'unrelated-block', 'bcb-block-flags'}


def cases(tier):
    out = []
    sizes = (4, 0) if tier == 'quick' else (4, 0, 12)
    for mode in ('direct', 'wrap'):
        for alt in ALTER + (['wrapped-key'] if mode == 'wrap' else []):
            for n in sizes:
                if n != 4 and alt not in ('none', 'ciphertext-octet', 'lifetime', 'wrong-key'):
                    continue
                out.append(dict(mode=mode, alter=alt, n=n))
        # one BCB over two targets (payload and an extension block): a failure of either target fails the bundle
        # the plaintext is an administrative record held in parsed form (as the agent builds its status reports)
        out.append(dict(mode=mode, alter='none', n=4, admin=1))
        out.append(dict(mode=mode, alter='ciphertext-octet', n=4, admin=1))
        two = ('none', 'ciphertext-octet', 'second-ciphertext-octet', 'lifetime')
        if tier != 'quick':
            two = [a for a in ALTER if a != 'unrelated-block'] + ['second-ciphertext-octet'] + (['wrapped-key'] if mode == 'wrap' else [])
        for alt in two:
            for n in ((4,) if tier == 'quick' else (4, 0)):
                out.append(dict(mode=mode, alter=alt, n=n, targets=2))
    return out


def keys(mode):
    from pycose import algorithms
    from pycose.keys import keyops, SymmetricKey
    if mode == 'direct':
        k = SymmetricKey(k=bytes(range(32)), optional_params={'ALG': algorithms.A256GCM, 'KID': b'enckey',
                                                              'KEY_OPS': [keyops.EncryptOp, keyops.DecryptOp]})
        return k, dict(content_iv=[bytes(range(200, 212)), bytes(range(212, 224))])
    k = SymmetricKey(k=bytes(range(16, 48)), optional_params={'ALG': algorithms.A256KW, 'KID': b'kek',
                                                              'KEY_OPS': [keyops.WrapOp, keyops.UnwrapOp]})
    return k, dict(content_alg=algorithms.A256GCM, content_key=bytes(range(100, 132)),
                   content_iv=[bytes(range(200, 212)), bytes(range(212, 224))])


def configure(w, mode, wrong=False):
    from pycose.keys import SymmetricKey
    ctx = w.agent._app['bpsec']._contexts[3]
    key, extra = keys(mode)
    if wrong:
        key = SymmetricKey(k=bytes(32 * [0x55]), optional_params={'ALG': key.alg, 'KID': key.kid, 'KEY_OPS': key.key_ops})
    ctx.sym_key_store[key.kid] = key
    return ctx, key, extra


def free_vars(e, acc):
    ''' Names of the uninterpreted constants of a term. '''
    seen = set()
    todo = [e]
    while todo:
        t = todo.pop()
        if t.get_id() in seen:
            continue
        seen.add(t.get_id())
        if z3.is_const(t) and t.decl().kind() == z3.Z3_OP_UNINTERPRETED:
            acc.add(t.decl().name())
        todo.extend(t.children())


def harness(case, tier):
    from bp.app.bpsec import SecAssociation, SecOperation
    from bp.encoding import PrimaryBlock, CanonicalBlock, Timestamp
    from bp.util import BundleContainer
    c = cur()
    idealcose.install()
    idealcose.reset()
    alt = case['alter']
    n = case['n']
    # ---------------- source
    s = BpWorld(node_id='dtn://src/', ctr_cap=8)
    s.add_tx_route('.*', mtu=None)
    ctx, key, extra = configure(s, case['mode'])
    ctx.sec_assoc.append(SecAssociation(src_pat=re.compile('.*'), dst_pat=re.compile('.*'),
                                        tgt_blk_types=[1, 192] if case.get('targets') == 2 else [1],
                                        templates=[SecOperation(sec_type='bcb', role='source', priv_key_id=key.kid, **extra)]))
    data = c.sym_bytes('plain', n) if n else b''
    life = c.sym_int('lifetime', 2 ** 32, 2 ** 40)
    ts = c.sym_int('dtntime', 2 ** 32, 2 ** 39)
    ctr = BundleContainer()
    admin_blk = None
    if case.get('admin'):
        from bp.encoding import AdminRecord, StatusReport, StatusInfoArray, StatusInfo
        t1 = c.sym_int('plain_time', 2 ** 32, 2 ** 39)
        sr = StatusReport(status=StatusInfoArray(received=StatusInfo(status=True, at=t1), forwarded=StatusInfo(status=False),
                                                 delivered=StatusInfo(status=False), deleted=StatusInfo(status=False)),
                          reason_code=0, subj_source='dtn://src/app', subj_ts=Timestamp(dtntime=ts, seqno=7))
        admin_blk = CanonicalBlock(type_code=1, block_num=1, crc_type=2) / AdminRecord() / sr
        data = rfc9171.enc([1, [[[True, t1], [False], [False], [False]], 0, [1, '//src/app'], [ts, 7]]])
    ctr.bundle.primary = PrimaryBlock(bundle_flags=2 if case.get('admin') else 0, destination='dtn://dst/app', source='dtn://src/app', report_to='dtn:none',
                                      create_ts=Timestamp(dtntime=ts, seqno=3), lifetime=life, crc_type=2)
    other = c.sym_bytes('plain_other' if case.get('targets') == 2 else 'other', 2)
    ctr.bundle.blocks = [CanonicalBlock(type_code=192, block_num=4, crc_type=0, btsd=other),
                         admin_blk if admin_blk is not None else CanonicalBlock(type_code=1, block_num=1, crc_type=2, btsd=data)]
    err = s.send(ctr)
    c.prove(err is None and len(s.sent) == 1, 'source-sends-protected-bundle', detail=dict(err=repr(err), n=len(s.sent)))
    if len(s.sent) != 1:
        return {'class': 'no-send'}
    wire = s.sent[0]
    b = rfc9171.decode_bundle(wire)
    bcbs = [x for x in b['blocks'] if bool(x['type'] == 12)]
    c.prove(len(bcbs) == 1, 'bundle-carries-one-bcb', detail=len(bcbs))
    if len(bcbs) != 1:
        return {'class': 'no-bcb'}

    # ---------------- what is on the wire
    pay_wire = [x for x in b['blocks'] if bool(x['type'] == 1)][0]
    oth_wire = [x for x in b['blocks'] if bool(x['type'] == 192)][0]
    issued = [e for e in idealcose._entries() if e['kind'] == 'enc']
    sb = rfc9171.read_secblock(bcbs[0]['data'])
    scope = dict((int(k), int(v)) for (k, v) in dict((int(k), v) for (k, v) in sb['params'])[5].items())
    expect = [(pay_wire, data)] + ([(oth_wire, other)] if case.get('targets') == 2 else [])     # block number order
    c.prove(len(issued) == len(expect) and len(sb['targets']) == len(expect), 'one-content-encryption-per-target',
            detail=dict(issued=len(issued), targets=sb['targets']))
    for ix, (blk, plain) in enumerate(expect):
        c.prove(bool(sb['targets'][ix] == blk['num']) if ix < len(sb['targets']) else False, 'targets-in-block-number-order')
        if ix < len(issued):
            c.prove(same_bytes(blk['data'], issued[ix]['token']), 'wire-target-data-is-the-ciphertext', detail=dict(got=blk['data']))
            c.prove(same_bytes(issued[ix]['data'], plain), 'ciphertext-is-of-the-original-plaintext', detail=dict(got=issued[ix]['data']))
        if blen(plain) != 0:
            c.prove(not same_bytes(blk['data'], plain), 'wire-target-data-is-not-the-plaintext')
        # the additional authenticated data, constructed independently from the transmitted bundle
        msg = symcbor.loads(sb['results'][ix][0][1])
        aad = rfc9171.bpsec_cose_aad(b, sb['source'], scope, blk)
        want = rfc9171.enc(['Encrypt0' if case['mode'] == 'direct' else 'Encrypt', msg[0], aad])
        if ix < len(issued):
            c.prove(same_bytes(issued[ix]['aad'], want), 'authenticated-octets-equal-independent-construction',
                    detail=dict(got=issued[ix]['aad'], want=want))
        c.prove(msg[2] is None, 'ciphertext-detached-from-message', detail=repr(msg[2]))
    if len(issued) == 2:
        c.prove(issued[0]['nonce'] != issued[1]['nonce'] or issued[0]['key'] != issued[1]['key'], 'no-nonce-reuse-under-one-key',
                detail=[e['nonce'].hex() for e in issued])
    # no transmitted octet is a function of a plaintext variable
    names = set()
    wbuf = SBuf.of(wire)
    for piece in wbuf:
        for it in getattr(piece, 'items', []):
            if isinstance(it, SInt):
                free_vars(it.e, names)
        if not hasattr(piece, 'items'):
            names.add('ref:%s' % getattr(piece, 'src', '?'))
    leak = sorted(x for x in names if x.startswith('plain') or x.startswith('ref:plain'))
    c.prove(not leak, 'no-wire-octet-depends-on-the-plaintext', detail=leak)

    # ---------------- alteration on the wire (CRCs recomputed, as an on-path node could)
    p = dict(b['primary'])
    pri = dict(flags=p['flags'], crc_type=p['crc_type'], destination=rfc9171.eid_text(p['destination']),
               source=rfc9171.eid_text(p['source']), report_to=rfc9171.eid_text(p['report_to']),
               create_ts=list(p['create_ts']), lifetime=p['lifetime'], version=p['version'])
    blocks = [dict(type=x['type'], num=x['num'], flags=x['flags'], crc_type=x['crc_type'], data=x['data']) for x in b['blocks']]
    pay = [x for x in blocks if bool(x['type'] == 1)][0]
    bcb = [x for x in blocks if bool(x['type'] == 12)][0]
    oth = [x for x in blocks if bool(x['type'] == 192)][0]
    changed = True

    def other_value(name, old, lo, hi):
        v = c.sym_int(name, lo, hi)
        c.assume(v != old)
        return v
    if alt == 'ciphertext-octet':
        items = list(bytes(pay['data'])) if not isinstance(pay['data'], SBuf) else list(SBuf.of(pay['data'])[0].items)
        # (for an administrative-record bundle the receiver's decoder looks at the leading octets of the payload
        #  while they are still ciphertext: those stay concrete, a later octet is altered)
        i = 9 + c.choose(3, 'octet') if case.get('admin') else c.choose(min(len(items), 6), 'octet')
        items[i] = other_value('newoctet', items[i], 0, 255)
        pay['data'] = SBuf.mk([Lit(items)])
    elif alt == 'second-ciphertext-octet':
        items = list(bytes(oth['data'])) if not isinstance(oth['data'], SBuf) else list(SBuf.of(oth['data'])[0].items)
        i = c.choose(min(len(items), 6), 'octet')
        items[i] = other_value('newoctet', items[i], 0, 255)
        oth['data'] = SBuf.mk([Lit(items)])
    elif alt == 'lifetime':
        pri['lifetime'] = other_value('newlife', life, 2 ** 32, 2 ** 40)
    elif alt == 'timestamp':
        pri['create_ts'][0] = other_value('newts', ts, 2 ** 32, 2 ** 39)
    elif alt == 'destination':
        pri['destination'] = 'dtn://dst/other'
    elif alt == 'target-flags':
        pay['flags'] = [1, 2, 4, 0x10][c.choose(4, 'new-flags')]      # the source sets 0
    elif alt == 'bcb-block-flags':
        bcb['flags'] = [0, 2, 5, 0x11][c.choose(4, 'new-flags')]      # the source sets 1 (replicate)
    elif alt == 'unrelated-block':
        items = list(SBuf.of(oth['data'])[0].items)
        items[0] = other_value('newother', items[0], 0, 255)
        oth['data'] = SBuf.mk([Lit(items)])
    elif alt in ('sec-source', 'aad-scope', 'protected-header', 'iv', 'wrapped-key'):
        bcb['data'] = alter_bcb(c, bcb['data'], alt, case['mode'])
    else:
        changed = False
    wire2 = rfc9171.sealed_bundle(pri, blocks) if changed else wire

    # ---------------- receiver
    r = BpWorld(node_id='dtn://dst/', ctr_cap=8, accept_after_verify=True)     # the security acceptor
    r.add_rx_route(r'^dtn://dst/.+', 'deliver')
    configure(r, case['mode'], wrong=(alt == 'wrong-key'))
    r.recv(wire2)
    r.run_idle(20)
    esc = r.escaped()
    c.prove(not esc, 'no-callback-exception', detail=[repr(e) for (_s, e) in esc])
    delivered = len(r.delivered)
    if alt not in OUT_OF_SCOPE:
        c.prove(delivered == 0, 'altered-context-or-ciphertext-fails-decryption[%s]' % alt, detail=delivered)
        # the plaintext is released nowhere: no container of the receiver holds it as target data
        if n:
            for x in r.delivered:
                c.prove(not same_bytes(x.block_num(1).getfieldval('btsd'), data), 'plaintext-not-released[%s]' % alt)
        return {'class': 'rejected'}
    c.prove(delivered == 1, 'intact-or-out-of-scope-decrypts[%s]' % alt, detail=delivered)
    if delivered == 1:
        got = r.delivered[0].block_num(1).getfieldval('btsd')
        c.prove(same_bytes(got, data), 'decrypted-plaintext-is-original', detail=dict(got=got))
        if case.get('targets') == 2:
            got = r.delivered[0].block_num(4).getfieldval('btsd')
            c.prove(same_bytes(got, other), 'decrypted-plaintext-is-original[second target]', detail=dict(got=got))
    return {'class': 'decrypted'}


def alter_bcb(c, data, what, mode):
    ''' Re-encode the security block with one item changed. '''
    rd = symcbor._Rd(data if isinstance(data, SBuf) else SBuf(list(SBuf.of(data))))
    items = []
    while bool(blen(rd.buf) != 0):
        items.append(symcbor._dec(rd))
    # [targets, context id, flags, source, params, results]
    targets, ctxid, flags, source, params, results = items
    if what == 'sec-source':
        source = [1, '//other/']
    elif what == 'aad-scope':
        # parameter 5: the AAD scope map {0: 1, -1: 1}
        params = [[k, ({0: 1} if bool(k == 5) else v)] for (k, v) in params]
    else:
        res = results[0][0]             # [cose tag number, encoded message]
        msg = list(symcbor.loads(res[1]))
        if what == 'protected-header':
            msg[0] = symcbor._real.dumps({1: 1})          # A128GCM instead of A256GCM
        elif what == 'iv':
            uh = dict(msg[1].items())
            iv = bytes(uh[5])
            j = c.choose(2, 'iv-octet')
            v = c.sym_int('newiv', 0, 255)
            c.assume(v != iv[j])
            uh[5] = SBuf.mk([Lit(list(iv[:j]) + [v] + list(iv[j + 1:]))])
            msg[1] = uh
        else:
            # the wrapped content key in the recipient: [protected, unprotected, ciphertext]
            rec = list(msg[3][0])
            t = bytes(rec[2])
            j = c.choose(2, 'wrapped-octet')
            v = c.sym_int('newwrap', 0, 255)
            c.assume(v != t[j])
            rec[2] = SBuf.mk([Lit(list(t[:j]) + [v] + list(t[j + 1:]))])
            msg[3] = [rec] + list(msg[3][1:])
        res = [res[0], symcbor._enc(msg, False)]
        results = [[res]]
    e = rfc9171.enc
    return e(targets) + e(ctxid) + e(flags) + e(source) + e(params) + e(results)
