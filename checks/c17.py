''' C17 - TCPCL answers out-of-place peer messages without corrupting state.

One real endpoint A (active) with a scripted peer: the peer stream is produced by the independent
RFC 9174 encoder from symbolic fields.  A is driven (through its API) into each session state, then one
or two adversarial well-formed messages arrive; afterwards a cooperative peer acknowledges everything. '''
from vf.engine import cur, blen, same_bytes, is_sym, neg
from vf.oracle import rfc9174
from checks.tcpcl_common import *

MANIFEST = {
    'text': 'Bounded symbolic model checking of the real receive dispatch and handlers: in each of 8 session '
            'states incl. a bundle queued before establishment (reached through the API) every message type with fully symbolic fields (transfer id, flags, '
            'length, reason, unknown type code, contact magic/version) is delivered, alone (quick) or in pairs '
            '(thorough); obligations: no exception escapes an event-loop callback, illegal messages are answered '
            'by MSG_REJECT / SESS_TERM / close, delivered data matches an independent reassembly model, and the '
            'endpoint\'s own transfer still completes with a cooperative peer.',
    'note': 'Trusted: engine, stand-ins, independent codec and legality model in the harness, z3. Bounds: 1 (2) '
            'adversarial messages, own bundle <= 2 segments, data blobs of symbolic length.',
    'ref': '5 C17'}
BOUNDS = {
    'quick': dict(states=9, adversarial_messages=1, own_bundle_segments='<= 2', fields='all symbolic'),
    'thorough': dict(states=9, adversarial_messages=2, own_bundle_segments='<= 2', fields='all symbolic'),
}
ASSUMPTIONS = [
    'messages are syntactically valid RFC 9174 encodings (malformed framing is C07)',
    'timers off; no TLS; each adversarial message arrives in one read',
    'segment data lengths < 2^62 so that the cumulative length of a transfer stays a U64',
    'KEEPALIVE and MSG_REJECT are treated as legal in any session state (the property does not list them); a second SESS_INIT in a session is out of place',
]
REQUIRED_CLASSES = {'all': ['illegal', 'legal']}
QUICK_VALIDATE = 4
MAX_PATHS = {'quick': 20000, 'thorough': 100000}

STATES = ['contact', 'sessneg', 'sessneg-queued', 'idle', 'queued', 'midsend', 'await-ack', 'rx', 'terminating']
KINDS = ['XFER_SEGMENT', 'XFER_ACK', 'XFER_REFUSE', 'SESS_TERM', 'KEEPALIVE', 'MSG_REJECT', 'SESS_INIT', 'UNKNOWN']


def cases(tier):
    out = []
    for st in STATES:
        if st == 'contact':
            out.append(dict(state=st, msgs='CONTACT_BAD'))
            out.append(dict(state=st, msgs='XFER_ACK'))
            continue
        for k in KINDS:
            out.append(dict(state=st, msgs=k))
    if tier == 'thorough':
        for st in ('idle', 'midsend', 'rx', 'await-ack'):
            for k1 in ('XFER_SEGMENT', 'XFER_ACK', 'XFER_REFUSE', 'UNKNOWN'):
                for k2 in ('XFER_SEGMENT', 'XFER_ACK', 'XFER_REFUSE', 'SESS_TERM'):
                    out.append(dict(state=st, msgs=k1 + '+' + k2))
    return out


PEER_INIT = dict(kind='SESS_INIT', keepalive=0, segment_mru=2 ** 64 - 1, transfer_mru=2 ** 64 - 1,
                 node_id=b'dtn://peer/', ext=[])


class Peer(object):
    ''' Scripted peer writing into A's receive pipe. '''

    def __init__(self, w):
        self.w = w
        self.sent_segments = []     # oracle records of every XFER_SEGMENT the peer sent
        self.adv = []
        self.acked = 0

    def send(self, rec_or_bytes):
        data = rec_or_bytes if not isinstance(rec_or_bytes, dict) else rfc9174.encode(rec_or_bytes)
        if isinstance(rec_or_bytes, dict) and rec_or_bytes['kind'] == 'XFER_SEGMENT':
            self.sent_segments.append(rec_or_bytes)
        self.w.ba.buf = self.w.ba.buf + data
        self.w.run(400)

    def a_msgs(self):
        msgs, _rest = rfc9174.decode_stream(self.w.ab.total)
        return msgs


def adversarial(c, kind, ix):
    p = 'x%d_' % ix
    if kind == 'XFER_SEGMENT':
        flags = c.sym_int(p + 'flags', 0, 255)
        ln = c.sym_int(p + 'dlen', 0, 2 ** 62 - 1, size=True)
        ext = []
        return dict(kind=kind, flags=flags, transfer_id=c.sym_int(p + 'tid', 0, 2 ** 64 - 1), ext=ext,
                    length=ln, data=c.sym_blob(p + 'data', ln))
    if kind == 'XFER_ACK':
        return dict(kind=kind, flags=c.sym_int(p + 'flags', 0, 255), transfer_id=c.sym_int(p + 'tid', 0, 2 ** 64 - 1),
                    length=c.sym_int(p + 'len', 0, 2 ** 64 - 1))
    if kind == 'XFER_REFUSE':
        return dict(kind=kind, reason=c.sym_int(p + 'reason', 0, 5), transfer_id=c.sym_int(p + 'tid', 0, 2 ** 64 - 1))
    if kind == 'SESS_TERM':
        return dict(kind=kind, flags=c.sym_int(p + 'flags', 0, 1), reason=c.sym_int(p + 'reason', 0, 5))
    if kind == 'KEEPALIVE':
        return dict(kind=kind)
    if kind == 'MSG_REJECT':
        # in the implementation's field order (see C07 known finding); content is irrelevant here
        return dict(kind=kind, reason=c.sym_int(p + 'a', 1, 3), rejected=c.sym_int(p + 'b', 1, 3))
    if kind == 'SESS_INIT':
        return dict(PEER_INIT, keepalive=c.sym_int(p + 'ka', 0, 65535))
    raise ValueError(kind)


def harness(case, tier):
    c = cur()
    st = case['state']
    w = World(mkcfg('dtn://a/', segment_size_tx_initial=c.sym_int('segA', 1, 2 ** 64 - 1, size=True)), None)
    w.a.CHUNK_SIZE = BIG
    w.run(100)
    peer = Peer(w)
    own = None
    rx_tid = None
    if st == 'sessneg-queued':
        # the user queued a bundle before the session is established
        ln = c.sym_int('lenA', 1, 2 ** 64 - 1, size=True)
        c.assume(ln <= w.a._config.segment_size_tx_initial)
        data = c.sym_blob('bundleA', ln)
        tid = w.a.send_bundle_fileobj(BytesIO(data))
        own = dict(tid=tid, ln=ln, data=data)
        w.run(100)
    if st != 'contact':
        peer.send(dict(kind='contact', flags=0))
    if st not in ('contact', 'sessneg', 'sessneg-queued'):
        peer.send(PEER_INIT)
        c.prove(w.a._state == 'established', 'setup:established')
    if st in ('queued', 'midsend', 'await-ack'):
        ln = c.sym_int('lenA', 1, 2 ** 64 - 1, size=True)
        seg = w.a._send_segment_size
        nseg = 1 if st == 'await-ack' else 2
        c.assume(ln <= nseg * seg)
        if st == 'midsend':
            c.assume(ln > seg)
        data = c.sym_blob('bundleA', ln)
        tid = w.a.send_bundle_fileobj(BytesIO(data))
        own = dict(tid=tid, ln=ln, data=data)
        if st == 'midsend':
            # exactly one pass of the segmenting idle source
            en = [s for s in w.enabled() if getattr(s.func, '__name__', '') == '_process_queue']
            w.dispatch(en[0])
        elif st == 'await-ack':
            w.run(400)
    if st == 'rx':
        rx_tid = c.sym_int('rxtid', 0, 2 ** 64 - 1)
        l0 = c.sym_int('rxlen0', 0, 2 ** 62 - 1, size=True)
        peer.send(dict(kind='XFER_SEGMENT', flags=2, transfer_id=rx_tid, ext=[], length=l0,
                       data=c.sym_blob('rxdata0', l0)))
    if st == 'terminating':
        w.a.terminate(0)
        w.run(400)

    mark = len(peer.a_msgs())
    kinds = case['msgs'].split('+')
    illegal_any = False
    for ix, kind in enumerate(kinds):
        in_sess = w.a._in_sess
        closed_before = 'A' in w.closed_socks
        if kind == 'CONTACT_BAD':
            magic = c.sym_bytes('magic', 4)
            ver = c.sym_int('ver', 0, 255)
            c.assume(neg(same_bytes(magic, b'dtn!') & (ver == 4)))
            c.assume(ver != 3)     # a TCPCLv3 header is longer: the endpoint legitimately waits for more
            illegal = True
            peer.send(magic + rfc9174.u(ver, 1) + rfc9174.u(c.sym_int('cflags', 0, 255), 1))
        elif kind == 'UNKNOWN':
            t = c.sym_int('x%d_type' % ix, 0, 255)
            c.assume((t == 0) | (t >= 8))
            illegal = True
            peer.send(rfc9174.u(t, 1))
        else:
            rec = adversarial(c, kind, ix)
            if st == 'contact':
                # read as a contact header its version octet is the third octet of the transfer id
                c.assume((rec['transfer_id'] // 256 ** 5) % 256 != 3)
            illegal = is_illegal(c, w, st, rec, own, peer, in_sess)
            rec['_illegal'] = illegal
            peer.send(rec)
        if closed_before:
            continue
        if illegal:
            illegal_any = True
            after = peer.a_msgs()[mark:]
            resp = [m['kind'] for m in after if m['kind'] in ('MSG_REJECT', 'SESS_TERM')]
            answered = bool(resp) or ('A' in w.closed_socks)
            c.prove(answered, 'illegal-message-answered[%s,%s]' % (st, kind),
                    detail=dict(after=[m['kind'] for m in after], closed=w.closed_socks, state=w.a._state))
        mark = len(peer.a_msgs())
    esc = w.escaped()
    c.prove(not esc, 'no-callback-exception[%s,%s]' % (st, case['msgs']), detail=[repr(e) for (_s, e) in esc])

    if st in ('sessneg', 'sessneg-queued') and 'A' not in w.closed_socks and not esc and not w.a._in_sess:
        # the peer now completes session negotiation
        peer.send(PEER_INIT)
    # cooperative continuation: finish the inbound transfer, acknowledge everything A sent
    alive = 'A' not in w.closed_socks and w.a._in_sess and not w.a._in_term and not esc
    if alive and st == 'rx':
        l1 = c.sym_int('rxlen1', 0, 2 ** 62 - 1, size=True)
        peer.send(dict(kind='XFER_SEGMENT', flags=1, transfer_id=rx_tid, ext=[], length=l1,
                       data=c.sym_blob('rxdata1', l1)))
    if alive:
        for _round in range(4):
            segs = [m for m in peer.a_msgs() if m['kind'] == 'XFER_SEGMENT']
            acked = peer.acked
            if acked >= len(segs):
                break
            cum = 0
            for j, s in enumerate(segs):
                if bool((s['flags'] & 2) != 0):
                    cum = 0
                cum = cum + s['length']
                if j >= acked:
                    peer.send(dict(kind='XFER_ACK', flags=s['flags'], transfer_id=s['transfer_id'], length=cum))
            peer.acked = len(segs)
    esc2 = w.escaped()
    c.prove(len(esc2) == len(esc), 'no-callback-exception-afterwards[%s]' % st, detail=[repr(e) for (_s, e) in esc2])

    # data integrity against an independent reassembly model
    exp = model_deliveries(peer.sent_segments) if st not in ('contact', 'sessneg', 'sessneg-queued') else []
    queue = list(w.a.recv_bundle_get_queue())
    c.prove(len(queue) <= len(exp), 'no-delivery-from-mismatched-segments[%s]' % st,
            detail=dict(queue=queue, expected=len(exp)))
    for i, q in enumerate(queue):
        got = w.a.recv_bundle_pop_data(q)
        if i < len(exp):
            # the data of one whole transfer of the model (a peer that reuses a transfer ID makes two transfers of
            # the same name: either one's data is acceptable, a mixture is not)
            ok = False
            for e in exp:
                if bool(same_bytes(got, e[1])):
                    ok = True
                    break
            c.prove(ok, 'delivered-data-is-one-transfer[%s]' % st, detail=dict(got=got))

    # own transfer unaffected
    if own is not None and 'A' not in w.closed_socks and not w.a._in_term and not esc2:
        fin = [a for (_i, a) in sig_index('send_bundle_finished', w.a) if a[0] == str(own['tid'])]
        if not peer_touched(case, c, own, peer):
            c.prove(len(fin) == 1 and fin[0][2] == 'success', 'own-transfer-completes[%s,%s]' % (st, case['msgs']),
                    detail=dict(fin=fin, state=w.a._state))
    return {'class': 'illegal' if illegal_any else 'legal', 'state': w.a._state, 'closed': sorted(w.closed_socks),
            'a_sent': [m['kind'] for m in peer.a_msgs()], 'esc': [type(e).__name__ for (_s, e) in esc2],
            'queue': len(queue)}


def is_about(c, rec, tid):
    return rec['kind'] in ('XFER_ACK', 'XFER_REFUSE') and not c.must(rec['transfer_id'] != tid)


def peer_touched(case, c, own, peer):
    ''' Did an adversarial ACK/REFUSE/SESS_TERM legitimately concern A's own transfer or end the session? '''
    for r in peer.adv:
        if r.get('_illegal'):
            continue       # rejected messages must leave the transfer alone
        if r['kind'] in ('SESS_TERM', 'SESS_INIT') or is_about(c, r, own['tid']):
            return True
    return False


def is_illegal(c, w, st, rec, own, peer, in_sess):
    ''' Independent legality model for the message kinds the property lists. '''
    peer.adv.append(rec)
    k = rec['kind']
    if not in_sess:
        return k in ('XFER_SEGMENT', 'XFER_ACK', 'XFER_REFUSE', 'SESS_TERM') or (st == 'contact')
    if k == 'XFER_SEGMENT':
        start = bool((rec['flags'] & 2) != 0)
        if start:
            return False
        cur_rx = model_current(peer.sent_segments[:-1] if peer.sent_segments and peer.sent_segments[-1] is rec else peer.sent_segments)
        if cur_rx is None:
            return True
        return bool(rec['transfer_id'] != cur_rx)
    if k == 'SESS_INIT':
        return True          # the session exists already
    if k in ('XFER_ACK', 'XFER_REFUSE'):
        known = []
        if own is not None:
            known.append(own['tid'])
        if k == 'XFER_ACK' and st == 'queued':
            # nothing of the own transfer has been sent yet: an acknowledgement of it is out of place
            return True
        return all(bool(rec['transfer_id'] != t) for t in known)
    return False


def model_current(segments):
    ''' Transfer id in progress on the receive side after the given peer segments (None if none). '''
    cur_t = None
    for s in segments:
        start = bool((s['flags'] & 2) != 0)
        end = bool((s['flags'] & 1) != 0)
        if start:
            cur_t = s['transfer_id']
        elif cur_t is None or bool(s['transfer_id'] != cur_t):
            continue
        if end:
            cur_t = None
    return cur_t


def model_deliveries(segments):
    ''' (transfer id, data) of every transfer completed by the peer's segments. '''
    out = []
    cur_t = None
    buf = b''
    for s in segments:
        start = bool((s['flags'] & 2) != 0)
        end = bool((s['flags'] & 1) != 0)
        if start:
            cur_t = s['transfer_id']
            buf = b''
        elif cur_t is None or bool(s['transfer_id'] != cur_t):
            continue
        buf = buf + s['data']
        if end:
            out.append((cur_t, buf))
            cur_t = None
    return out
