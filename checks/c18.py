''' C18 - The D-Bus view of transfers is type-correct and consistent with reality.

Every signal emission and method return of the TCPCL endpoints in the explored runs is checked against its
declared D-Bus signature (ranges of symbolic integers are solver obligations); queue views, pops and the
idle indication are compared after every scheduler step with a ghost model built from the signals. '''
from vf.engine import cur, blen, same_bytes, is_sym
from vf import dbussig
from checks.tcpcl_common import *

MANIFEST = {
    'text': 'Bounded symbolic model checking of the D-Bus boundary: in two-endpoint runs with symbolic '
            'lengths/segment sizes/MRUs (plus terminate, a peer refusal with symbolic fields, and the UDPCL '
            'receive path with peer-controlled extension values) every emission and return is checked against '
            'the declared signature with integer ranges as solver obligations; queue views, pop-once and the '
            'idle indication are compared with a ghost model after every scheduler step.',
    'note': 'Trusted: engine, stand-ins, the signature checker (vf/dbussig.py, modelled on dbus-python '
            'marshalling: plain int in a variant is int32), z3. Bounds as C01/C09.',
    'ref': '5 C18'}
BOUNDS = {
    'quick': dict(bundles='A->B in {1,2}, B->A in {0,1}', segments_per_bundle='<= 2', events='none | terminate by A '
                  'at 0/4/10 steps | XFER_REFUSE injected', observation='ghost comparison after every scheduler step'),
    'thorough': dict(bundles='as quick', segments_per_bundle='<= 3', events='more positions'),
}
ASSUMPTIONS = [
    'dbus-python marshalling rules as modelled in vf/dbussig.py (no real bus in this sandbox)',
    'as C01 for the transport',
]
REQUIRED_CLASSES = {'all': ['plain', 'event']}
QUICK_VALIDATE = 4


def cases(tier):
    out = []
    k = 2 if tier == 'quick' else 3
    for (na, nb) in ((1, 0), (1, 1), (2, 0)):
        out.append(dict(na=na, nb=nb, kseg=k if na + nb < 2 else 2, ev='none', pop='end'))
        out.append(dict(na=na, nb=nb, kseg=2, ev='none', pop='early'))
        out.append(dict(na=na, nb=nb, kseg=2, ev='termA', pop='end'))
    out.append(dict(na=1, nb=0, kseg=2, ev='refuse', pop='end'))
    out.append(dict(na=2, nb=0, kseg=2, ev='refuse', pop='end'))
    # UDPCL receive path with peer-controlled extension-map values
    for nid in ('text', 'absent', 'uint', 'bytes'):
        out.append(dict(udpcl='listen', nodeid=nid))
    out.append(dict(udpcl='transfer'))
    return out


class Ghost(object):
    ''' What the signals say about one endpoint. '''

    def __init__(self, h):
        self.h = h
        self.queued = []        # ids returned by send calls
        self.finished_tx = []   # ids in send_bundle_finished
        self.finished_rx = []   # ids in recv_bundle_finished
        self.popped = []
        self.started_rx = []


def udpcl_harness(c, case):
    ''' UDPCL: every signal caused by one received datagram conforms to its signature. '''
    import dbus.service
    from vf import symcbor
    from checks.c13 import make_agent, conv
    ag = make_agent(None)
    if case['udpcl'] == 'listen':
        ext = {3: c.sym_int('interval_ms', 0, 2 ** 64 - 1)}
        nid = case['nodeid']
        if nid == 'text':
            ext[4] = 'dtn://peer/'
        elif nid == 'uint':
            ext[4] = c.sym_int('nodeid_uint', 0, 2 ** 32)
        elif nid == 'bytes':
            ext[4] = b'dtn://peer/'
        d = symcbor.dumps(ext)
    else:
        n = c.sym_int('len', 0, 2 ** 32, size=True)
        d = symcbor.dumps({2: [c.sym_int('tid', 0, 2 ** 64 - 1), n, 0, c.sym_blob('data', n)]})
    try:
        ag._recv_datagram(None, d, conv())
        err = None
    except Exception as e:
        err = e
    c.prove(err is None, 'udpcl:no-exception-on-peer-values[%s]' % case.get('nodeid', 'transfer'), detail=repr(err))
    for (kind, iface, name, sig, args, obj) in dbus.service.EMITTED:
        res = dbussig.check(sig, list(args), '%s %s' % (kind, name))
        c.prove(not res.problems, 'udpcl:dbus-type[%s]' % name, detail=res.problems)
        for (cond, text) in res.obligations:
            c.prove(cond, 'udpcl:dbus-range[%s]' % name, detail=text)
    return {'class': 'event', 'signals': [n for (k, i, n, s_, a, o) in dbus.service.EMITTED]}


def harness(case, tier):
    import dbus.service
    c = cur()
    if case.get('udpcl'):
        return udpcl_harness(c, case)
    w = build_world(c)
    ok = establish(w)
    c.prove(ok, 'established')
    if not ok:
        return {'class': 'not-established'}
    ghosts = {'A': Ghost(w.a), 'B': Ghost(w.b)}
    sent = {'A': [], 'B': []}
    for i in range(case['na']):
        t = queue_bundle(c, w, 'A', i, case['kseg'])
        sent['A'].append(t)
        ghosts['A'].queued.append(str(t[0]))
    for i in range(case['nb']):
        t = queue_bundle(c, w, 'B', i, case['kseg'])
        sent['B'].append(t)
        ghosts['B'].queued.append(str(t[0]))
    ev = case['ev']
    when = None
    if ev != 'none':
        pts = [0, 4, 10] if tier == 'quick' else [0, 2, 4, 7, 10, 16]
        when = pts[c.choose(len(pts), 'event-point')]
    seen = [0]

    def absorb():
        ''' Fold new boundary records into the ghosts and type-check them. '''
        recs = dbus.service.EMITTED
        while seen[0] < len(recs):
            (kind, iface, name, sig, args, obj) = recs[seen[0]]
            seen[0] += 1
            res = dbussig.check(sig, list(args), '%s %s' % (kind, name))
            c.prove(not res.problems, 'dbus-type[%s]' % name, detail=res.problems)
            for (cond, text) in res.obligations:
                c.prove(cond, 'dbus-range[%s]' % name, detail=text)
            side = 'A' if obj is w.a else ('B' if obj is w.b else None)
            if side is None or kind != 'signal':
                continue
            g = ghosts[side]
            if name == 'send_bundle_finished':
                g.finished_tx.append(args[0])
            elif name == 'recv_bundle_finished':
                g.finished_rx.append(args[0])
            elif name == 'recv_bundle_started':
                g.started_rx.append(args[0])

    def ids(lst):
        return sorted(str(x) if not is_sym(x) else repr(x) for x in lst)

    def compare(tag):
        absorb()
        for side, g in ghosts.items():
            h = g.h
            sq = list(h.send_bundle_get_queue())
            rq = list(h.recv_bundle_get_queue())
            exp_s = [q for q in g.queued if not any(bool(q == f) for f in g.finished_tx)]
            exp_r = [f for f in g.finished_rx if not any(bool(f == p) for p in g.popped)]
            c.prove(ids(sq) == ids(exp_s), 'send-queue-view', detail=dict(side=side, view=sq, ghost=exp_s, at=tag))
            c.prove(ids(rq) == ids(exp_r), 'recv-queue-view', detail=dict(side=side, view=rq, ghost=exp_r, at=tag))
            for f in set(ids(g.finished_tx)):
                c.prove(ids(g.finished_tx).count(f) == 1, 'at-most-one-finished-signal',
                        detail=dict(side=side, finished=ids(g.finished_tx)))
            idle = h.is_sess_idle()
            if idle:
                # a transfer whose sender stopped after a refusal is abandoned when the next one starts
                busy_rx = [s for s in g.started_rx[-1:] if not any(bool(s == f) for f in g.finished_rx)]
                c.prove(not exp_s and not busy_rx, 'idle-implies-nothing-pending',
                        detail=dict(side=side, queued=exp_s, rx_in_progress=busy_rx, at=tag))
                c.prove(h.recv_buffer_used() == 0, 'idle-implies-no-unprocessed-octets')
        absorb()

    def pop_all(side):
        g = ghosts[side]
        for q in list(g.h.recv_bundle_get_queue()):
            data = g.h.recv_bundle_pop_data(q)
            g.popped.append(q)
            other = 'B' if side == 'A' else 'A'
            match = [d for (t, l, d) in sent[other] if bool(str(t) == q)]
            c.prove(len(match) == 1 and same_bytes(data, match[0]), 'pop-returns-the-transfer-data',
                    detail=dict(side=side, bid=q))
            try:
                g.h.recv_bundle_pop_data(q)
                again = True
            except KeyError:
                again = False
            c.prove(not again, 'pop-only-once', detail=dict(side=side, bid=q))

    compare('start')
    start = w.steps
    fired = False
    while True:
        en = w.enabled()
        if not en:
            break
        if w.steps - start > 500:
            from vf.engine import Cut
            raise Cut('more than 500 scheduler steps')
        if when is not None and not fired and w.steps - start >= when:
            fired = True
            if ev == 'termA' and w.a._in_sess and not w.a._in_term:
                w.a.terminate(0)
            elif ev == 'refuse':
                # the peer refuses a transfer (symbolic id and reason), injected on a message boundary
                from vf.oracle import rfc9174
                if bool(blen(w.ba.buf) == 0):
                    rec = dict(kind='XFER_REFUSE', reason=[0, 3, 5][c.choose(3, 'reason')],
                               transfer_id=c.sym_int('rtid', 0, 2 ** 64 - 1))
                    w.ba.buf = w.ba.buf + rfc9174.encode(rec)
            compare('event')
            continue
        w.dispatch(en[0])
        compare('step')
        if case['pop'] == 'early':
            pop_all('A')
            pop_all('B')
            compare('pop')
    pop_all('A')
    pop_all('B')
    compare('end')
    esc = w.escaped()
    c.prove(not esc, 'no-callback-exception', detail=[repr(e) for (_s, e) in esc])
    graceful = ev in ('none', 'termA')
    for side, g in ghosts.items():
        h = g.h
        if graceful:
            for q in g.queued:
                n = sum(1 for f in g.finished_tx if bool(f == q))
                c.prove(n == 1, 'exactly-one-finished-signal-at-graceful-end', detail=dict(side=side, bid=q, n=n))
        # (with an injected refusal the other side may keep an abandoned inbound transfer: only A is judged)
        if (ev == 'none' or (ev == 'refuse' and side == 'A')) and not esc and h._in_sess and not h._in_term:
            c.prove(h.is_sess_idle(), 'idle-after-drain[%s]' % ev, detail=dict(side=side))
    return {'class': 'plain' if ev == 'none' else 'event',
            'signals': [(n, a) for (n, a) in w.signals() if 'finished' in n or 'started' in n]}
