''' C19 - Status reports are sent exactly when requested and say what happened.

A bundle (independent RFC 9171 writer) with every combination of report-request flags is received by the real
agent and ends as delivered / forwarded / forwarded as fragments / deleted / unrouted; the administrative-record
bundles handed to the convergence layer are read by the independent reader. '''
from vf.engine import cur, blen, same_bytes, is_sym
from vf.oracle import rfc9171
from vf import symcbor
from vf.bpenv import BpWorld

MANIFEST = {
    'text': 'Bounded symbolic model checking of recv_bundle / _finish_bundle / create_report / send of the report: '
            'all 32 combinations of the five report-request flags x report-to {dtn:none, real} x outcome {deliver, '
            'forward, forward with fragmentation, forward that fails for lack of a transmit route, forward over a route whose MTU is below the non-payload part of the bundle, delete, no route}; subject creation time and sequence number '
            'symbolic; the transmitted report octets are decoded independently and compared with the requested and '
            'occurred actions.',
    'note': 'Trusted: engine, vf.symcbor, independent reader, z3. Security-failure outcome is exercised in C12.',
    'ref': '5 C19'}
BOUNDS = {'quick': dict(flags='all 32 combinations', report_to='dtn:none | real', outcomes=9),
          'thorough': dict(flags='all 32 combinations', report_to='dtn:none | real', outcomes=9, subject='CRC types 0/1/2, sequence number in [0,2^64), a fragment as subject of forward/delete outcomes')}
ASSUMPTIONS = [
    'one subject bundle per run',
    'forwarded status is judged after the send (the implementation records it after send_bundle returns)',
]
REQUIRED_CLASSES = {'all': ['report', 'no-report']}
QUICK_VALIDATE = 3

NODE = 'dtn://node/'
FL = dict(deletion=0x40000, delivery=0x20000, forwarding=0x10000, reception=0x4000, time=0x40)
OUTCOMES = ['deliver', 'forward', 'fragment', 'delete', 'noroute', 'fwdfail', 'nofrag', 'fraginc', 'mtufail']


def cases(tier):
    out = []
    for oc in OUTCOMES:
        for rep in ('none', 'real'):
            out.append(dict(outcome=oc, rep=rep))
            if tier != 'quick':
                # other CRC types on the subject, sequence number over all CBOR head classes, a forwarded subject
                # that is itself a fragment
                out.append(dict(outcome=oc, rep=rep, crc=0, wide=1))
                out.append(dict(outcome=oc, rep=rep, crc=1, wide=1))
                if oc in ('forward', 'delete', 'fwdfail'):    # not mtufail: the implementation never re-fragments a fragment, it is forwarded whole
                    out.append(dict(outcome=oc, rep=rep, crc=2, frag=1))
    return out


def harness(case, tier):
    c = cur()
    oc = case['outcome']
    w = BpWorld(node_id=NODE, ctr_cap=12)
    dest = {'deliver': 'dtn://node/app', 'forward': 'dtn://far/app', 'fragment': 'dtn://far/app', 'nofrag': 'dtn://far/app',
            'fraginc': 'dtn://node/app',
            'delete': 'dtn://bad/app', 'noroute': 'dtn://nowhere/app', 'fwdfail': 'dtn://lost/app',
            'mtufail': 'dtn://tiny/app'}[oc]
    w.add_rx_route(r'^dtn://node/.+', 'deliver')
    w.add_rx_route(r'^dtn://far/.*', 'forward')
    w.add_rx_route(r'^dtn://bad/.*', 'delete')
    w.add_rx_route(r'^dtn://lost/.*', 'forward')      # but there is no transmit route for it
    w.add_tx_route(r'^dtn://far/.*', mtu=160 if oc in ('fragment', 'nofrag') else None)
    w.add_rx_route(r'^dtn://tiny/.*', 'forward')
    # a route whose MTU is below the non-payload part of the bundle: fragmentation cannot succeed, nothing is sent
    w.add_tx_route(r'^dtn://tiny/.*', mtu=[20, 50][c.choose(2, 'tiny-mtu')] if oc == 'mtufail' else None)
    w.add_tx_route(r'^dtn://rep/.*', mtu=None)
    bits = c.choose(32, 'report-flags')
    names = ['deletion', 'delivery', 'forwarding', 'reception', 'time']
    req = {n: bool(bits & (1 << i)) for i, n in enumerate(names)}
    flags = sum(FL[n] for n in names if req[n])
    report_to = 'dtn://rep/svc' if case['rep'] == 'real' else 'dtn:none'
    t = c.sym_int('t', 2 ** 32, 2 ** 39)
    s = c.sym_int('s', 0, 2 ** 64 - 1 if case.get('wide') else 23)
    plen = 300 if oc in ('fragment', 'nofrag') else 5
    payload = bytes(range(1, plen + 1)) if oc == 'fraginc' else c.sym_blob('payload', plen)
    ct = case.get('crc', 2)
    pri = dict(flags=flags, crc_type=ct, destination=dest, source='dtn://src/app', report_to=report_to,
               create_ts=[t, s], lifetime=3600000)
    if case.get('frag'):
        pri['flags'] = flags | 1
        pri['fragment_offset'] = c.sym_int('foff', 0, 2 ** 32)
        pri['total_adu_length'] = pri['fragment_offset'] + plen + c.sym_int('rest', 0, 2 ** 32)
    if oc == 'nofrag':
        # larger than the route MTU but marked do-not-fragment: it is forwarded as it is, not deleted
        pri['flags'] = pri['flags'] | 0x4
    if oc == 'fraginc':
        # the subject arrives as two fragments which disagree about the total length: nothing is delivered
        pri['flags'] = pri['flags'] | 1
        pri['fragment_offset'] = 0
        pri['total_adu_length'] = 30
    wire = rfc9171.sealed_bundle(pri, [dict(type=1, num=1, flags=0, crc_type=ct, data=payload)])
    w.recv(wire)
    w.run_idle(40)
    if oc == 'fraginc':
        pri2 = dict(pri, fragment_offset=5, total_adu_length=40)
        w.recv(rfc9171.sealed_bundle(pri2, [dict(type=1, num=1, flags=0, crc_type=ct, data=bytes(range(6, 11)))]))
        w.run_idle(40)
        c.prove(len(w.delivered) == 0, 'inconsistent-fragments-deliver-nothing', detail=len(w.delivered))
    esc = w.escaped()
    c.prove(not esc, 'no-callback-exception', detail=[repr(e) for (_s, e) in esc])

    reports, others = [], []
    for d in w.sent:
        b = rfc9171.decode_bundle(d)
        (reports if bool((b['primary']['flags'] & 2) != 0) else others).append(b)
    occurred = {'reception': True, 'delivery': oc == 'deliver', 'forwarding': oc in ('forward', 'fragment', 'nofrag'),
                'deletion': oc in ('delete', 'fwdfail', 'mtufail')}
    if oc in ('delete', 'fwdfail', 'mtufail'):
        c.prove(len(others) == 0, 'deleted-bundle-not-forwarded[%s]' % oc, detail=len(others))
    if oc in ('forward', 'fragment', 'nofrag'):
        c.prove(len(others) >= 1, 'subject-was-forwarded', detail=len(others))
    want_any = case['rep'] == 'real' and any(req[n] and occurred[n] for n in occurred)
    if oc == 'fraginc':
        # fragments waiting for reassembly: reception may be reported (per fragment), nothing else has occurred
        c.prove(len(reports) <= 2, 'at-most-one-report-per-fragment', detail=len(reports))
    elif oc == 'noroute':
        # nothing is done with the bundle; a reception report is allowed but the property does not demand one
        c.prove(len(reports) <= 1, 'at-most-one-report', detail=len(reports))
        if not want_any:
            c.prove(not reports, 'no-report-unless-requested-and-occurred[%s]' % oc, detail=len(reports))
    else:
        c.prove((len(reports) >= 1) == want_any, 'report-iff-requested-and-occurred[%s]' % oc,
                detail=dict(reports=len(reports), requested=req, occurred=occurred, report_to=report_to))
    for b in reports:
        p = b['primary']
        c.prove(rfc9171.eid_text(p['destination']) == report_to, 'report-addressed-to-report-to', detail=p['destination'])
        c.prove((p['flags'] & 2) != 0, 'report-is-administrative-record')
        c.prove((p['flags'] & (0x40000 | 0x20000 | 0x10000 | 0x4000)) == 0, 'report-requests-no-reports', detail=p['flags'])
        rfc9171.check_crcs(c, b, c.prove, tag='[report]')
        pay = [x for x in b['blocks'] if bool(x['type'] == 1)]
        c.prove(len(pay) == 1, 'report-has-payload')
        if len(pay) != 1:
            continue
        rec = symcbor.loads(pay[0]['data'])
        c.prove(isinstance(rec, list) and len(rec) == 2 and rec[0] == 1, 'report-record-type-status', detail=repr(rec)[:80])
        body = rec[1]
        st = dict(zip(['reception', 'forwarding', 'delivery', 'deletion'], body[0]))
        c.prove(rfc9171.eid_text(body[2]) == 'dtn://src/app', 'report-subject-source', detail=body[2])
        c.prove(body[3][0] == t and body[3][1] == s, 'report-subject-timestamp', detail=body[3])
        for n, info in st.items():
            asserted = bool(info[0])
            if asserted:
                c.prove(req[n] and occurred[n], 'report-asserts-only-requested-and-occurred[%s,%s]' % (n, oc),
                        detail=dict(requested=req[n], occurred=occurred[n]))
                c.prove((len(info) == 2) == req['time'], 'report-time-iff-requested', detail=dict(info=len(info), req=req['time']))
            elif req[n] and occurred[n]:
                c.prove(False, 'report-asserts-every-requested-action-that-occurred[%s,%s]' % (n, oc), detail=st)
        c.prove(not (bool(st['forwarding'][0]) and bool(st['deletion'][0])), 'never-forwarded-and-deleted')
        if oc in ('forward', 'fragment', 'nofrag'):
            c.prove(not bool(st['deletion'][0]), 'forwarded-bundle-not-reported-deleted[%s]' % oc, detail=st)
    return {'class': 'report' if reports else 'no-report', 'n': len(reports), 'others': len(others)}
