''' C20 - BTP-U messages round-trip and segmented transfers reassemble.

The real btpu.messages scapy classes and btpu.agent.Agent._send_transfer / _recv_msg run on symbolic transfer
numbers, segment indices, hint data, bundle length (opaque blob) and MTU; frames are read by an independent
BTP-U decoder and, in the other direction, frames from an independent encoder are decoded and re-encoded. '''
import itertools
from vf.engine import cur, blen, same_bytes, is_sym, Cut
from vf.oracle import btpu as O
from vf import rt

MANIFEST = {
    'text': 'Bounded symbolic model checking of the real BTP-U codec and agent: (codec) every message kind with '
            'symbolic xfer_num / seg_idx / hint data / payload length, 0..2 hints, built by the implementation and '
            'read by an independent decoder, and frames of the independent encoder decoded and re-encoded by the '
            'implementation; (send) segmentation of a bundle of symbolic length under a symbolic MTU: every frame '
            'within the MTU, declared lengths exact, data concatenated by index equals the bundle, last segment is '
            'the end message; (recv) all arrival permutations of <= 3 segments: exactly that bundle is queued once.',
    'note': 'Trusted: engine, struct twin, portion stand-in (package absent: cannot be diff-tested), independent '
            'BTP-U codec, z3. Raw sockets / Ethernet framing are not involved.',
    'ref': '5 C20'}
BOUNDS = {'quick': dict(hints='0..2', segments='<= 3 (more are cut)', permutations='n <= 3'),
          'thorough': dict(hints='0..2', segments='<= 4 and <= 6', permutations='n <= 5 (all 153 orders), duplicates of each segment at each later position (n = 3)')}
ASSUMPTIONS = ['bundle length below 2^32 (the 4-octet length hint); frames are not corrupted',
               'portion stand-in semantics for discrete intervals']
REQUIRED_CLASSES = {'all': ['codec', 'segmented', 'received']}
SMALL_LIMIT = 2 ** 21          # the 20-bit message length is the boundary of interest
QUICK_VALIDATE = 3
MAX_PATHS = {'quick': 20000, 'thorough': 100000}


def cases(tier):
    out = []
    for kind in ('bundle', 'seg', 'end', 'padding', 'set'):
        for nh in (0, 1, 2):
            out.append(dict(kind='codec', msg=kind, hints=nh))
    out.append(dict(kind='send', k=3 if tier == 'quick' else 4))
    out.append(dict(kind='send', k=3, nomtu=1))          # no MTU configured
    if tier != 'quick':
        out.append(dict(kind='send', k=6))
    for n in ((1, 2, 3) if tier == 'quick' else (1, 2, 3, 4, 5)):
        for perm in itertools.permutations(range(n)):
            out.append(dict(kind='recv', n=n, order=''.join(map(str, perm))))
    out.append(dict(kind='recv', n=2, order='010'))
    if tier != 'quick':
        # a duplicate of every segment at every later position (n = 3)
        for d in range(3):
            for pos in range(d + 1, 4):
                order = [0, 1, 2]
                order.insert(pos, d)
                out.append(dict(kind='recv', n=3, order=''.join(map(str, order))))
    return out


def harness(case, tier):
    c = cur()
    return {'codec': h_codec, 'send': h_send, 'recv': h_recv}[case['kind']](c, case)


def make_hints(c, n):
    from btpu.messages import HintHead
    from scapy.packet import Raw
    impl, orc = [], []
    for i in range(n):
        ht = c.sym_int('htype%d' % i, 0, 127)
        val = c.sym_bytes('hval%d' % i, 3)
        impl.append(HintHead(hint_type=ht) / Raw(val))
        orc.append(dict(type=ht, value=val))
    return impl, orc


def h_codec(c, case):
    from btpu.messages import MessageHead, MessageSet, BundlePdu, TransferSeg, TransferEnd, DefinitePadding
    from scapy.packet import Raw
    kind = case['msg']
    himpl, horc = make_hints(c, case['hints'])
    ln = [0, 1, 5, 300][c.choose(4, 'data-length')]      # concrete lengths: the 20-bit length field stays concrete
    data = c.sym_blob('data', ln)
    xn, si = c.sym_int('xfer_num', 0, 2 ** 32 - 1), c.sym_int('seg_idx', 0, 2 ** 32 - 1)
    if kind in ('bundle', 'set'):
        pkt = MessageHead(hints=himpl) / BundlePdu(data)
        want = O.encode_message(O.BUNDLE, data, horc)
    elif kind == 'padding':
        pkt = MessageHead(hints=himpl) / DefinitePadding(data)
        want = O.encode_message(O.PADDING, data, horc)
    elif kind == 'seg':
        pkt = MessageHead(hints=himpl) / TransferSeg(xfer_num=xn, seg_idx=si) / Raw(data)
        want = O.encode_message(O.XFER_SEG, data, horc, xn, si)
    else:
        pkt = MessageHead(hints=himpl) / TransferEnd(xfer_num=xn, seg_idx=si) / Raw(data)
        want = O.encode_message(O.XFER_END, data, horc, xn, si)
    octets = rt.b_bytes(pkt)
    if kind == 'set':
        second = MessageHead() / TransferEnd(xfer_num=xn, seg_idx=si) / Raw(c.sym_bytes('tail', 2))
        octets = octets + rt.b_bytes(second) + b'\x00\x00'
        want = want + O.encode_message(O.XFER_END, c.sym_bytes('tail', 2) if False else second.payload.payload.load, (), xn, si) + b'\x00\x00'
    c.prove(same_bytes(octets, want), 'codec:writers-agree[%s]' % kind, detail=dict(impl=octets, independent=want))
    msgs = O.decode_set(octets)
    c.prove(len(msgs) == (2 if kind == 'set' else 1), 'codec:independent-reader-message-count[%s]' % kind, detail=len(msgs))
    m = msgs[0]
    c.prove(same_bytes(m['data'], data), 'codec:data[%s]' % kind)
    c.prove(len(m['hints']) == case['hints'], 'codec:hint-count[%s]' % kind, detail=len(m['hints']))
    for h, w in zip(m['hints'], horc):
        c.prove(h['type'] == w['type'] and same_bytes(h['value'], w['value']), 'codec:hint-values[%s]' % kind)
    if kind in ('seg', 'end'):
        c.prove(m['xfer_num'] == xn and m['seg_idx'] == si, 'codec:transfer-fields[%s]' % kind)
    # implementation decodes the independent encoding to the same messages and re-encodes it unchanged
    ms = MessageSet(want)
    c.prove(len(ms.msgs) == len(msgs), 'codec:impl-reader-message-count[%s]' % kind, detail=len(ms.msgs))
    back = b''
    for x in ms.msgs:
        back = back + rt.b_bytes(x)
    if kind == 'set':
        back = back + b'\x00\x00'
    c.prove(same_bytes(back, want), 'codec:reencode-equals-original[%s]' % kind, detail=dict(again=back, orig=want))
    return {'class': 'codec', 'size': blen(octets)}


def make_agent(mtu):
    from gi.repository import GLib
    import dbus.service
    import btpu.agent as BA
    import btpu.config
    GLib.reset()
    dbus.service.reset()
    cfg = btpu.config.Config()
    cfg.mtu_default = mtu
    return BA.Agent(cfg, bus_kwargs=dict(conn=None, object_path='/org/ietf/dtn/btpu/Agent'))


def h_send(c, case):
    import btpu.agent as BA
    from vf.symio import BytesIO
    K = case['k']
    L = c.sym_int('L', 0, 2 ** 32 - 1, size=True)
    mtu = None if case.get('nomtu') else c.sym_int('mtu', 1, 2 ** 20, size=True)
    tid = c.sym_int('tid', 0, 2 ** 32 - 1)
    data = c.sym_blob('bundle', L)
    ag = make_agent(mtu)
    item = BA.BundleItem(address='00-11-22-33-44-55', file=BytesIO(data), transfer_id=tid)
    item.total_length = L
    frames = []
    try:
        for f in ag._send_transfer(item):
            frames.append(f)
            if len(frames) > K:
                c.prove(L > K, 'segmentation-terminates', detail=dict(L=L, mtu=mtu))
                if c.mode == 'conc':
                    return {'class': 'cut'}
                raise Cut('more than %d frames' % K)
    except (RuntimeError, ValueError, OverflowError) as err:
        c.prove(mtu is not None and mtu <= 40, 'refuses-only-tiny-mtu', detail=dict(mtu=mtu, L=L, err=repr(err)))
        return {'class': 'refused'}
    frames = [rt.b_bytes(f) for f in frames]
    for f in frames:
        if mtu is None:
            break
        c.prove(blen(f) <= mtu, 'frame-within-mtu', detail=dict(size=blen(f), mtu=mtu, L=L, n=len(frames)))
    from vf.symstruct import pack_uint, unpack_uint
    from vf.engine import SBuf
    if not frames:
        # nothing to send for an empty bundle under an MTU that forces segmentation
        c.prove(L == 0, 'non-empty-bundle-produces-frames', detail=dict(L=L, mtu=mtu))
        return {'class': 'empty'}
    first = frames[0][0]
    if len(frames) == 1 and bool(first == O.BUNDLE):
        # unsegmented: 4-octet head then the bundle
        c.prove(same_bytes(frames[0][4:], data), 'unsegmented-frame-carries-the-bundle')
        w = u24(frames[0][1:4])
        c.prove(w == L, 'declared-length-equals-actual[bundle]', detail=dict(declared=w, actual=L))
        return {'class': 'single', 'sizes': [blen(f) for f in frames]}
    HEAD = 4 + 2 + 4 + 8        # message head, one length hint (2 + 4), transfer number and index
    got = b''
    for i, f in enumerate(frames):
        last = i == len(frames) - 1
        c.prove(f[0] == (O.XFER_END if last else O.XFER_SEG), 'end-message-only-last', detail=dict(i=i, type=f[0]))
        c.prove(same_bytes(f[4:6], bytes([0, 4])), 'length-hint-present', detail=f[4:6])
        c.prove(same_bytes(f[6:10], pack_uint(L, 4)), 'length-hint-equals-bundle-length')
        c.prove(same_bytes(f[10:14], pack_uint(tid, 4)), 'segment-transfer-number')
        c.prove(same_bytes(f[14:18], pack_uint(i, 4)), 'segment-indices-sequential', detail=i)
        w = u24(f[1:4])
        c.prove(w == 0x8 * 2 ** 20 + (blen(f) - 4), 'declared-length-equals-actual[segment]',
                detail=dict(declared=w, actual=blen(f) - 4))
        got = got + f[HEAD:]
        c.prove(blen(f) > HEAD, 'segment-non-empty', detail=dict(i=i, size=blen(f)))
    c.prove(same_bytes(got, data), 'segments-concatenate-to-bundle', detail=dict(n=len(frames)))
    return {'class': 'segmented', 'sizes': [blen(f) for f in frames]}


def u24(b):
    from vf.symstruct import unpack_uint
    from vf.engine import SBuf
    return unpack_uint(b.lit_items()) if isinstance(b, SBuf) else int.from_bytes(b, 'big')


class Chan(object):
    def __init__(self, key):
        self.key = key
        self.local_if = 'eth0'
        self.peer_address = '00-11-22-33-44-55'


def h_recv(c, case):
    import dbus.service
    n = case['n']
    # concrete segment lengths (the 20-bit length field stays concrete); contents and transfer number symbolic
    L = 3 * n + 1
    data = c.sym_blob('bundle', L)
    xn = c.sym_int('xfer_num', 0, 2 ** 32 - 1)
    cuts = [3 * i for i in range(n)] + [L]
    from vf.symstruct import pack_uint
    hint = [dict(type=0, value=pack_uint(L, 4))]
    frames = []
    for i in range(n):
        t = O.XFER_END if i == n - 1 else O.XFER_SEG
        frames.append(O.encode_message(t, data[cuts[i]:cuts[i + 1]], hint, xn, i))
    ag = make_agent(None)
    chan = Chan(('eth0', 'peer'))
    seen = set()
    queued = []
    for ch in case['order']:
        i = int(ch)
        before = list(ag.recv_bundle_get_queue())
        ag._recv_msg(None, frames[i], chan)
        after = list(ag.recv_bundle_get_queue())
        queued += [b for b in after if b not in before]
        seen.add(i)
        c.prove((len(queued) >= 1) == (len(seen) == n), 'queued-iff-all-segments-present',
                detail=dict(seen=sorted(seen), queued=queued, n=n))
    c.prove(len(queued) == 1, 'exactly-one-bundle-queued', detail=dict(queued=queued, n=n, order=case['order']))
    if len(queued) == 1:
        got = ag.recv_bundle_pop_data(queued[0])
        got = getattr(got, 'buf', got)
        c.prove(same_bytes(got, data), 'queued-bundle-equals-original')
    return {'class': 'received', 'queued': len(queued)}
