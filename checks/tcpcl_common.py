''' Shared pieces of the TCPCL harnesses. '''
from vf.engine import Ctx, cur, is_sym, blen, same_bytes
from vf.tcpclenv import World
from vf.symio import BytesIO

BIG = 2 ** 72

STUBS = [
    'dbus stand-in (records emissions/returns; no bus)',
    'GLib stand-in: source table + virtual clock, harness is the scheduler',
    'socket stand-in: in-memory byte pipes, harness-controlled chunking; no TLS',
    'struct -> vf.symstruct, io.BytesIO -> vf.symio for symbolic values (real modules for concrete values)',
    'logging disabled',
]


def mkcfg(node_id, **kw):
    from tcpcl.config import Config
    cfg = Config()
    cfg.tls_enable = False
    cfg.node_id = node_id
    for k, v in kw.items():
        setattr(cfg, k, v)
    return cfg


def establish(w, max_steps=80):
    ''' Run contact + SESS_INIT exchange to quiescence. '''
    w.run(max_steps)
    return w.a._state == 'established' and (w.b is None or w.b._state == 'established')


def sig_index(name, obj):
    ''' Positions in the global emission record of signal `name` from obj. '''
    import dbus.service
    return [(i, args) for i, (kind, iface, nm, sig, args, o) in enumerate(dbus.service.EMITTED)
            if kind == 'signal' and nm == name and o is obj]


def build_world(c, real_chunk=False, rx='all', **extra):
    ''' Two endpoints with symbolic segment sizes / MRUs, established. '''
    from vf.engine import smin
    s_a = c.sym_int('segA', 1, 2 ** 64 - 1, size=True)
    s_b = c.sym_int('segB', 1, 2 ** 64 - 1, size=True)
    mru_a = c.sym_int('mruA', 1, 2 ** 64 - 1, size=True)
    mru_b = c.sym_int('mruB', 1, 2 ** 64 - 1, size=True)
    w = World(mkcfg('dtn://a/', segment_size_tx_initial=s_a, segment_size_mru=mru_a, **extra),
              mkcfg('dtn://b/', segment_size_tx_initial=s_b, segment_size_mru=mru_b, **extra))
    if not real_chunk:
        w.a.CHUNK_SIZE = w.b.CHUNK_SIZE = BIG
    w.seg = {'A': smin(s_a, mru_b), 'B': smin(s_b, mru_a)}
    w.sock_a.recv_policy = w.sock_b.recv_policy = rx
    return w


def queue_bundle(c, w, side, i, kseg, hi=2 ** 64 - 1):
    ''' Queue one symbolic bundle on a side; at most kseg segments (precondition on the inputs). '''
    ln = c.sym_int('len%s%d' % (side, i), 0, hi, size=True)
    c.assume(ln <= kseg * w.seg[side])
    data = c.sym_blob('bundle%s%d' % (side, i), ln)
    h = w.a if side == 'A' else w.b
    tid = h.send_bundle_fileobj(BytesIO(data))
    return (tid, ln, data)
