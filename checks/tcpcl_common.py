''' Shared pieces of the TCPCL harnesses. '''
from vf.engine import Ctx, cur, is_sym, blen, same_bytes
from vf.tcpclenv import World
from vf.symio import BytesIO

BIG = 2 ** 72

STUBS = [
    'dbus stand-in (records emissions/returns; no bus)',
    'GLib stand-in: source table + virtual clock, harness is the scheduler',
    'socket stand-in: in-memory byte pipes, harness-controlled chunking; no TLS',
    'struct -> vf.symstruct, io.BytesIO -> vf.symio for symbolic values (real modules for concrete values)',
    'logging disabled',
]


def mkcfg(node_id, **kw):
    from tcpcl.config import Config
    cfg = Config()
    cfg.tls_enable = False
    cfg.node_id = node_id
    for k, v in kw.items():
        setattr(cfg, k, v)
    return cfg


def establish(w, max_steps=80):
    ''' Run contact + SESS_INIT exchange to quiescence. '''
    w.run(max_steps)
    return w.a._state == 'established' and (w.b is None or w.b._state == 'established')


def sig_index(name, obj):
    ''' Positions in the global emission record of signal `name` from obj. '''
    import dbus.service
    return [(i, args) for i, (kind, iface, nm, sig, args, o) in enumerate(dbus.service.EMITTED)
            if kind == 'signal' and nm == name and o is obj]
