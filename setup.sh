#!/bin/bash
# Build the overlay venv of /venv with z3 (offline, from the wheelhouse).  Idempotent.
set -e
HERE="$(cd "$(dirname "$0")" && pwd)"
V="$HERE/.venv"
if [ -x "$V/bin/python" ] && "$V/bin/python" -c "import z3, scapy, cbor2" 2>/dev/null; then exit 0; fi
exec 9>"$HERE/.venv.lock"; flock 9
if [ -x "$V/bin/python" ] && "$V/bin/python" -c "import z3, scapy, cbor2" 2>/dev/null; then exit 0; fi
rm -rf "$V"
/venv/bin/python -m venv "$V"
echo "import site; site.addsitedir('/venv/lib/python3.12/site-packages')" > "$V/lib/python3.12/site-packages/_venv_overlay.pth"
PIP_NO_INDEX=1 "$V/bin/pip" install -q --no-index --find-links /opt/veriftools/wheels z3-solver cvc5 jsonschema
"$V/bin/python" -c "import z3, scapy, cbor2"
