''' certvalidator stand-in (the real package cannot load here: oscrypto finds no libcrypto).
Certificate path validation is the environment: the outcome is decided by the harness through
OUTCOME (callable returning True to accept, False to reject). '''
from . import errors

OUTCOME = [lambda end_cert, chain: True]


class ValidationContext(object):
    def __init__(self, trust_roots=None, other_certs=None, **kw):
        self.trust_roots = trust_roots or []
        self.other_certs = other_certs or []


class CertificateValidator(object):
    def __init__(self, end_entity_cert, intermediate_certs=None, validation_context=None):
        self.end_entity_cert = end_entity_cert
        self.intermediate_certs = intermediate_certs or []
        self.validation_context = validation_context

    def validate_usage(self, key_usage=None, extended_key_usage=None, extended_optional=False):
        if not OUTCOME[0](self.end_entity_cert, self.intermediate_certs):
            raise errors.PathValidationError('path validation failed (model)')
        return [self.end_entity_cert]

    def validate_tls(self, hostname):
        return self.validate_usage()
