class ValidationError(Exception):
    pass


class PathValidationError(ValidationError):
    pass


class PathBuildingError(ValidationError):
    pass


class InvalidCertificateError(ValidationError):
    pass


class RevokedError(ValidationError):
    pass
