''' crcmod stand-in (package absent in this sandbox): bitwise reflected CRCs.
On symbolic buffers the CRC is computed by vf.symcrc. '''
from . import predefined
