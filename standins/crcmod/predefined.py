_DEFS = {
    # name: (width, reflected poly, init, xorout)
    'x-25': (16, 0x8408, 0xFFFF, 0xFFFF),
    'crc-32c': (32, 0x82F63B78, 0xFFFFFFFF, 0xFFFFFFFF),
}


def crc_concrete(data, width, poly, init, xorout):
    crc = init
    for b in bytes(data):
        crc ^= b
        for _ in range(8):
            crc = (crc >> 1) ^ (poly & -(crc & 1))
    return (crc ^ xorout) & ((1 << width) - 1)


def mkPredefinedCrcFun(name):
    width, poly, init, xorout = _DEFS[name.lower()]

    def fun(data, crc=None):
        try:
            from vf import symcrc
        except ImportError:
            return crc_concrete(data, width, poly, init, xorout)
        return symcrc.crc(data, name.lower(), width, poly, init, xorout)
    fun.crc_name = name.lower()
    return fun


mkCrcFun = mkPredefinedCrcFun
