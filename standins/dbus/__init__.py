''' Stand-in for dbus-python: records emissions/returns and checks them against the
declared D-Bus signatures (see vf.dbussig). No bus, no I/O. '''
from . import exceptions
from .exceptions import DBusException


class String(str):
    pass


class ObjectPath(str):
    pass


class Array(list):
    def __init__(self, it=(), signature=None):
        list.__init__(self, it)
        self.signature = signature


class Dictionary(dict):
    def __init__(self, it=(), signature=None):
        dict.__init__(self, it)
        self.signature = signature


class ByteArray(bytes):
    pass


class Boolean(int):
    pass


class Byte(int):
    pass


class UInt16(int):
    pass


class UInt32(int):
    pass


class UInt64(int):
    pass


class Int32(int):
    pass


class Int64(int):
    pass


class Interface(object):
    def __init__(self, obj, dbus_interface=None):
        self._obj = obj
        self.dbus_interface = dbus_interface

    def __getattr__(self, name):
        return getattr(self._obj, name)


from . import bus, service  # noqa: E402
SessionBus = bus.BusConnection
SystemBus = bus.BusConnection
