BUS_SESSION = 0
BUS_SYSTEM = 1
BUS_STARTER = 2


class _Proxy(object):
    def __init__(self, name, path):
        self.name = name
        self.path = path

    def connect_to_signal(self, *a, **k):
        return None

    def NameHasOwner(self, name):
        return False

    def __getattr__(self, name):
        def func(*a, **k):
            return None
        return func


class BusConnection(object):
    def __init__(self, addr=None):
        self.addr = addr

    def get_object(self, name, path, **k):
        return _Proxy(name, path)

    def add_signal_receiver(self, *a, **k):
        return None
