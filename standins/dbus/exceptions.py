class DBusException(Exception):
    def get_dbus_name(self):
        return 'org.freedesktop.DBus.Error.Failed'
