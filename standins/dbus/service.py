''' dbus.service stand-in: Object / method / signal with recording. '''
import functools

# Observers: harnesses append callables f(kind, iface, name, signature, args) here.
OBSERVERS = []
# Plain record of everything that crossed the boundary in this run
EMITTED = []


def reset():
    del EMITTED[:]
    del OBSERVERS[:]


def _record(kind, iface, name, sig, args, obj):
    rec = (kind, iface, name, sig, args, obj)
    EMITTED.append(rec)
    for f in list(OBSERVERS):
        f(*rec)


class BusName(object):
    def __init__(self, name=None, bus=None, do_not_queue=False, **k):
        self._name = name

    def get_name(self):
        return self._name


class Object(object):
    def __init__(self, conn=None, object_path=None, bus_name=None, **k):
        self._vf_conn = conn
        self._vf_path = object_path
        self._vf_locations = [(conn, object_path, False)] if object_path is not None else []

    @property
    def locations(self):
        return iter(self._vf_locations)

    def remove_from_connection(self, connection=None, path=None):
        if not self._vf_locations:
            raise LookupError('not exported')
        self._vf_locations = []

    def add_to_connection(self, connection, path):
        self._vf_locations.append((connection, path, False))


def method(dbus_interface, in_signature=None, out_signature=None, **k):
    def deco(func):
        @functools.wraps(func)
        def wrapper(self, *a, **kw):
            ret = func(self, *a, **kw)
            _record('return', dbus_interface, func.__name__, out_signature, (ret,), self)
            return ret
        wrapper._dbus_is_method = True
        wrapper._dbus_interface = dbus_interface
        wrapper._dbus_in_signature = in_signature
        wrapper._dbus_out_signature = out_signature
        wrapper._vf_inner = func
        return wrapper
    return deco


def signal(dbus_interface, signature=None, **k):
    def deco(func):
        @functools.wraps(func)
        def wrapper(self, *a, **kw):
            func(self, *a, **kw)
            _record('signal', dbus_interface, func.__name__, signature, a, self)
        wrapper._dbus_is_signal = True
        wrapper._dbus_interface = dbus_interface
        wrapper._dbus_signature = signature
        return wrapper
    return deco
