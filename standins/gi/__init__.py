def require_version(*a, **k):
    return None
