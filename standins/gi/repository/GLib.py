''' GLib main-loop stand-in: a source table and a virtual clock; the harness is the scheduler.
Contract modelled: idle_add / timeout_add / io_add_watch return ids; a callback that returns
falsy is removed; source_remove() of a live id removes it; exceptions escaping a callback are
recorded in ESCAPED (and the source is removed, as PyGObject does after printing the traceback). '''
IO_IN = 1
IO_OUT = 4
IO_PRI = 2
IO_ERR = 8
IO_HUP = 16
PRIORITY_DEFAULT = 0


class Source(object):
    def __init__(self, sid, kind, func, args, **kw):
        self.sid = sid
        self.kind = kind          # 'idle' | 'timeout' | 'io'
        self.func = func
        self.args = args
        self.__dict__.update(kw)

    def __repr__(self):
        return '<src %d %s %s>' % (self.sid, self.kind, getattr(self.func, '__name__', self.func))


class State(object):
    def __init__(self):
        self.next_id = 1
        self.sources = {}
        self.now_ms = 0
        self.escaped = []


STATE = State()


def reset():
    global STATE
    STATE = State()
    return STATE


def idle_add(func, *args, **kw):
    s = STATE
    s.idle_adds = getattr(s, 'idle_adds', 0) + 1
    cap = getattr(s, 'idle_cap', None)
    if cap is not None and s.idle_adds > cap:
        from vf.engine import Cut
        raise Cut('more than %d idle sources scheduled' % cap)
    sid = s.next_id
    s.next_id += 1
    s.sources[sid] = Source(sid, 'idle', func, args)
    return sid


def timeout_add(interval_ms, func, *args, **kw):
    s = STATE
    sid = s.next_id
    s.next_id += 1
    s.sources[sid] = Source(sid, 'timeout', func, args, interval=interval_ms, due=s.now_ms + interval_ms)
    return sid


def timeout_add_seconds(interval, func, *args, **kw):
    return timeout_add(interval * 1000, func, *args, **kw)


def io_add_watch(chan, cond, func, *args, **kw):
    # PyGObject: int fd, object with fileno(), or GLib.IOChannel; anything else fails its assertion
    if not isinstance(chan, int) and not hasattr(chan, 'fileno'):
        raise AssertionError('io_add_watch: channel must be an fd, have fileno(), or be an IOChannel')
    s = STATE
    sid = s.next_id
    s.next_id += 1
    s.sources[sid] = Source(sid, 'io', func, args, chan=chan, cond=cond)
    return sid


def source_remove(sid):
    if sid in STATE.sources:
        del STATE.sources[sid]
        return True
    return False


def dispatch(sid):
    ''' Run one source once (harness API).  Returns the callback result. '''
    s = STATE
    src = s.sources.get(sid)
    if src is None:
        return None
    try:
        if src.kind == 'io':
            r = src.func(src.chan, src.cond, *src.args)
        else:
            r = src.func(*src.args)
    except Exception as err:   # engine signals are BaseException and pass through
        s.escaped.append((src, err))
        s.sources.pop(sid, None)
        return None
    if not r:
        # only remove if it is still the same source object
        if s.sources.get(sid) is src:
            del s.sources[sid]
    elif src.kind == 'timeout' and s.sources.get(sid) is src:
        src.due = s.now_ms + src.interval
    return r


class MainLoop(object):
    def __init__(self, *a, **k):
        self.running = False

    def run(self):
        self.running = True

    def quit(self):
        self.running = False

    def is_running(self):
        return self.running


class Error(Exception):
    pass


GError = Error
