from . import GLib
