''' import-only stand-in: EUI48 as a 6-octet value type '''


class HWAddress(object):
    pass


class EUI48(HWAddress):
    def __init__(self, v):
        if isinstance(v, EUI48):
            v = v._b
        if isinstance(v, str):
            v = bytes(int(p, 16) for p in v.replace('-', ':').split(':'))
        self._b = bytes(v)

    def __bytes__(self):
        return self._b

    def __eq__(self, o):
        return isinstance(o, EUI48) and o._b == self._b

    def __hash__(self):
        return hash(self._b)

    def __str__(self):
        return '-'.join('%02X' % b for b in self._b)

    __repr__ = __str__
