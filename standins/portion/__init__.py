''' portion stand-in (package absent in this sandbox; cannot be diff-tested here).
Models only integer-endpoint intervals and the subset of the documented API the
repository uses: closedopen, closed, singleton, empty, iterate, Interval (|, ==, in,
iteration over atomic intervals with .lower/.upper, .empty), AbstractDiscreteInterval,
create_api.  Endpoints may be symbolic ints: comparisons fork.

Representation: sorted list of disjoint, non-adjacent half-open [lo, hi) pieces for the
continuous Interval (closedopen only; closed/singleton are supported for the discrete
subclass where [a,b] == [a,b+1) ). '''


class _Atomic(object):
    def __init__(self, lower, upper):
        self.lower = lower
        self.upper = upper

    @property
    def empty(self):
        return False

    def __repr__(self):
        return '[%r,%r)' % (self.lower, self.upper)


class Interval(object):
    _discrete = False

    def __init__(self, pieces=()):
        self._p = [(lo, hi) for (lo, hi) in pieces]

    @classmethod
    def _from(cls, lo, hi):
        if bool(lo < hi):
            return cls([(lo, hi)])
        return cls([])

    @property
    def empty(self):
        return not self._p

    @property
    def atomic(self):
        return len(self._p) <= 1

    @property
    def lower(self):
        return self._p[0][0]

    @property
    def upper(self):
        hi = self._p[-1][1]
        return hi - 1 if self._discrete else hi

    def __iter__(self):
        for lo, hi in self._p:
            yield _Atomic(lo, hi - 1 if self._discrete else hi)

    def __len__(self):
        return len(self._p)

    def __or__(self, other):
        if not isinstance(other, Interval):
            return NotImplemented
        items = list(self._p)
        for (lo, hi) in other._p:
            items = _insert(items, lo, hi)
        return type(self)(items)

    def __and__(self, other):
        out = []
        for (a, b) in self._p:
            for (c, d) in other._p:
                lo = a if bool(a >= c) else c
                hi = b if bool(b <= d) else d
                if bool(lo < hi):
                    out.append((lo, hi))
        return type(self)(out)

    def __eq__(self, other):
        if not isinstance(other, Interval):
            return False
        if len(self._p) != len(other._p):
            return False
        for (a, b), (c, d) in zip(self._p, other._p):
            if not (bool(a == c) and bool(b == d)):
                return False
        return True

    def __ne__(self, other):
        return not self.__eq__(other)

    def __hash__(self):
        return id(self)

    def __contains__(self, item):
        if isinstance(item, Interval):
            for (c, d) in item._p:
                if not any(bool(a <= c) and bool(d <= b) for (a, b) in self._p):
                    return False
            return True
        for (a, b) in self._p:
            if bool(a <= item) and bool(item < b):
                return True
        return False

    def __repr__(self):
        if not self._p:
            return '()'
        return ' | '.join('[%r,%r)' % p for p in self._p)


def _insert(items, lo, hi):
    ''' Union of a sorted disjoint non-adjacent list with [lo,hi). '''
    if not bool(lo < hi):
        return items
    out = []
    placed = False
    for (a, b) in items:
        if placed:
            out.append((a, b))
        elif bool(b < lo):
            out.append((a, b))
        elif bool(hi < a):
            out.append((lo, hi))
            out.append((a, b))
            placed = True
        else:
            # overlap or adjacency: merge
            lo = a if bool(a <= lo) else lo
            hi = b if bool(b >= hi) else hi
    if not placed:
        out.append((lo, hi))
    return out


class AbstractDiscreteInterval(Interval):
    _discrete = True
    _step = 1


class _Api(object):
    def __init__(self, cls):
        self.cls = cls

    def empty(self):
        return self.cls([])

    def closedopen(self, lo, hi):
        return self.cls._from(lo, hi)

    def closed(self, lo, hi):
        if not self.cls._discrete:
            raise NotImplementedError('closed() on continuous intervals is not modelled')
        return self.cls._from(lo, hi + 1)

    def singleton(self, v):
        if not self.cls._discrete:
            raise NotImplementedError('singleton() on continuous intervals is not modelled')
        return self.cls._from(v, v + 1)

    def iterate(self, interval, step=1):
        return iterate(interval, step)


def create_api(cls, **k):
    return _Api(cls)


_default = _Api(Interval)
empty = _default.empty
closedopen = _default.closedopen


def closed(lo, hi):
    raise NotImplementedError('closed() on continuous intervals is not modelled')


def singleton(v):
    raise NotImplementedError('singleton() on continuous intervals is not modelled')


def iterate(interval, step=1):
    for (lo, hi) in interval._p:
        v = lo
        while bool(v < hi):
            yield v
            v = v + step
