''' import-only stand-in '''
AF_LINK = 17


def net_if_addrs():
    return {}
