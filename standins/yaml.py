''' import-only stand-in '''
def safe_load(f):
    raise NotImplementedError('yaml stand-in')
def net_if_addrs():
    return {}

