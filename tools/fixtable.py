#!/usr/bin/env python3
''' Regenerate the table of repaired defects in DESIGN.md (between the FIXTABLE markers) from known_findings.txt. '''
import os, re, subprocess
HERE = os.path.dirname(os.path.dirname(os.path.abspath(__file__)))
rows = ['| property | commit | what failed (obligations) |', '|---|---|---|']
n = 0
commits = set()
for line in open(os.path.join(HERE, 'known_findings.txt')):
    if not line.startswith('fixed:'):
        continue
    _f, prop, commit, rest = line.strip().split(None, 3)
    rows.append('| %s | %s | %s |' % (prop.split('=')[1], commit, rest.replace('|', '/')))
    commits.add(commit)
p = os.path.join(HERE, 'DESIGN.md')
s = open(p).read()
s = re.sub(r'<!-- FIXTABLE -->.*<!-- /FIXTABLE -->', '<!-- FIXTABLE -->\n' + '\n'.join(rows) + '\n<!-- /FIXTABLE -->', s, flags=re.S)
s = re.sub(r'\d+ genuine defects were\nrepaired', '%d genuine defects were\nrepaired' % len(commits), s)
open(p, 'w').write(s)
print(len(commits), 'fix commits')
