#!/bin/bash
# tools/ingest_seed.sh <NN> <k> : copy a sub-agent's /tmp/wt_cNN/seed into seeded/CNN-k, confirm it (verify_seed.sh)
# and run the quick check of CNN (plus any further checks given) against it in a scratch worktree.
set -u
N="$1"; K="$2"; shift 2
D=/verif/seeded/C$N-$K
mkdir -p "$D"
cp -r /tmp/wt_c$N/seed/demo.py /tmp/wt_c$N/seed/stubs "$D"/ 2>/dev/null
git -C /tmp/wt_c$N diff -- src > "$D/patch.diff"
find "$D" -name __pycache__ -prune -exec rm -rf {} +
sed -i "s#/tmp/wt_c$N/src#/repo/src#g" "$D/demo.py"
/verif/tools/verify_seed.sh "$D"
/verif/tools/seedtest_wt.sh "$D/patch.diff" C$N "$@"
