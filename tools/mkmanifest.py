#!/usr/bin/env python3
''' Regenerate MANIFEST.json from the table below (kept valid at all times). '''
import json, os
HERE = os.path.dirname(os.path.dirname(os.path.abspath(__file__)))

TECH = 'bounded symbolic execution of the real Python code with z3 (path forking; per-path unsat queries; cex replay)'
import sys, glob, importlib
sys.path[:0] = [HERE, os.path.join(HERE, 'standins')]
CLAIMED = {}
for f in sorted(glob.glob(os.path.join(HERE, 'checks', 'c[0-9][0-9].py'))):
    src = open(f).read()
    ns = {}
    # the MANIFEST dict of a check module is a literal: evaluate it without importing the engine
    import ast
    for node in ast.parse(src).body:
        if isinstance(node, ast.Assign) and getattr(node.targets[0], 'id', None) == 'MANIFEST':
            CLAIMED[os.path.basename(f)[:3].upper()] = ast.literal_eval(node.value)
NA_REASON = 'check not built yet in this session (planned: DESIGN.md section 5)'
ALL = ['C%02d' % i for i in range(1, 21)]


def main():
    checks = []
    for pid in sorted(CLAIMED):
        c = CLAIMED[pid]
        checks.append(dict(
            property_id=pid,
            quick_cmd='./run %s --tier quick' % pid,
            thorough_cmd='./run %s --tier thorough' % pid,
            evidence_file='/verif/evidence/%s.json' % pid,
            replay_cmd_template='./run %s --replay {path}' % pid,
            engine='vf',
            level_claimed=dict(category='model_checking', text=c['text'], design_ref=c['ref']),
            level_note=c['note'],
            technique=c.get('technique', TECH),
        ))
    na_over = {}
    p = os.path.join(HERE, 'tools', 'not_applicable.json')
    if os.path.exists(p):
        na_over = json.load(open(p))
    man = dict(
        version=1,
        setup_cmd='./setup.sh',
        hooks=dict(
            guard='DTN_DEMO_AGENT_VERIF',
            enable='no source hooks: instrumentation is applied at import time in the check process (vf/loader.py)',
            baseline_off_cmd='cd /repo && /venv/bin/python -m pytest -ra -q -p no:cacheprovider --timeout=900 --continue-on-collection-errors',
            source_commits=[],
            add_only=True,
        ),
        engines=[dict(name='vf', path='/verif/vf', serves_properties=sorted(CLAIMED),
                      kind_free_text='path-forking symbolic executor over z3 running the real repository code '
                                     'through import-time AST instrumentation, with stand-ins for I/O')],
        checks=checks,
        not_applicable=[dict(property_id=p, reason=na_over.get(p, NA_REASON)) for p in ALL if p not in CLAIMED],
        notes='Exit codes: 0 held on everything explored, 1 VIOLATION (replayed concretely first), 2 harness error / inconclusive.',
    )
    with open(os.path.join(HERE, 'MANIFEST.json'), 'w') as f:
        json.dump(man, f, indent=1)


if __name__ == '__main__':
    main()
