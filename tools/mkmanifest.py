#!/usr/bin/env python3
''' Regenerate MANIFEST.json from the table below (kept valid at all times). '''
import json, os
HERE = os.path.dirname(os.path.dirname(os.path.abspath(__file__)))

TECH = 'bounded symbolic execution of the real Python code with z3 (path forking; per-path unsat queries; cex replay)'
CLAIMED = {
    'C01': dict(
        text='Bounded symbolic model checking: two real ContactHandler endpoints are run on symbolic bundle lengths, '
             'segment sizes and MRUs (all in [0|1,2^64)) with opaque payloads; every feasible path up to the stated '
             'bounds is explored and each delivery/ordering/success obligation is discharged by z3 for all values on the path.',
        note='Trusted: the engine (vf/), the stand-ins for dbus/GLib/sockets, z3.  Bounds: bundles per direction, '
             'segments per bundle, scheduler deviations, CHUNK_SIZE lifted in most cases (see evidence.bounds).',
        ref='5 C01'),
}
NA_REASON = 'check not built yet in this session (planned: DESIGN.md section 5)'
ALL = ['C%02d' % i for i in range(1, 21)]


def main():
    checks = []
    for pid in sorted(CLAIMED):
        c = CLAIMED[pid]
        checks.append(dict(
            property_id=pid,
            quick_cmd='./run %s --tier quick' % pid,
            thorough_cmd='./run %s --tier thorough' % pid,
            evidence_file='/verif/evidence/%s.json' % pid,
            replay_cmd_template='./run %s --replay {path}' % pid,
            engine='vf',
            level_claimed=dict(category='model_checking', text=c['text'], design_ref=c['ref']),
            level_note=c['note'],
            technique=c.get('technique', TECH),
        ))
    na_over = {}
    p = os.path.join(HERE, 'tools', 'not_applicable.json')
    if os.path.exists(p):
        na_over = json.load(open(p))
    man = dict(
        version=1,
        setup_cmd='./setup.sh',
        hooks=dict(
            guard='DTN_DEMO_AGENT_VERIF',
            enable='no source hooks: instrumentation is applied at import time in the check process (vf/loader.py)',
            baseline_off_cmd='cd /repo && /venv/bin/python -m pytest -ra -q -p no:cacheprovider --timeout=900 --continue-on-collection-errors',
            source_commits=[],
            add_only=True,
        ),
        engines=[dict(name='vf', path='/verif/vf', serves_properties=sorted(CLAIMED),
                      kind_free_text='path-forking symbolic executor over z3 running the real repository code '
                                     'through import-time AST instrumentation, with stand-ins for I/O')],
        checks=checks,
        not_applicable=[dict(property_id=p, reason=na_over.get(p, NA_REASON)) for p in ALL if p not in CLAIMED],
        notes='Exit codes: 0 held on everything explored, 1 VIOLATION (replayed concretely first), 2 harness error / inconclusive.',
    )
    with open(os.path.join(HERE, 'MANIFEST.json'), 'w') as f:
        json.dump(man, f, indent=1)


if __name__ == '__main__':
    main()
