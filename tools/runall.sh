#!/bin/bash
# tools/runall.sh [quick|thorough] : run every registered check of the tier in turn (evidence files are rewritten),
# print one line per check and exit non-zero if any check did.
cd "$(dirname "$0")/.."
TIER="${1:-quick}"
RCALL=0
for P in $(python3 -c "import json; print(' '.join(c['property_id'] for c in json.load(open('MANIFEST.json'))['checks']))"); do
  S=$(date +%s)
  OUT=$(./run "$P" --tier "$TIER" 2>&1)
  RC=$?
  E=$(date +%s)
  echo "$P rc=$RC wall=$((E-S))s $(echo "$OUT" | grep "^$P $TIER" | cut -c1-150)"
  echo "$OUT" | grep "^VIOLATION\|^HARNESS-ERROR" | cut -c1-200
  [ $RC -ne 0 ] && RCALL=1
done
exit $RCALL
