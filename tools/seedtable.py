#!/usr/bin/env python3
''' Regenerate the seeded-change table of DESIGN.md (between the SEEDTABLE markers) from seeded/*/meta.json. '''
import json, glob, os, re
HERE = os.path.dirname(os.path.dirname(os.path.abspath(__file__)))
rows = ['| seed | what it needs to manifest | obligations that fail (check) | first run |', '|---|---|---|---|']
for d in sorted(glob.glob(os.path.join(HERE, 'seeded', '*'))):
    m = json.load(open(os.path.join(d, 'meta.json')))
    first = 'caught'
    if m.get('missed_initially'):
        first = 'missed → ' + m.get('strengthened', 'check strengthened (see detected-by)')
    rows.append('| %s | %s | %s | %s |' % (os.path.basename(d), m.get('needs_to_manifest', ''), m.get('detected_by', ''), first))
p = os.path.join(HERE, 'DESIGN.md')
s = open(p).read()
s = re.sub(r'<!-- SEEDTABLE -->.*<!-- /SEEDTABLE -->', '<!-- SEEDTABLE -->\n' + '\n'.join(rows) + '\n<!-- /SEEDTABLE -->', s, flags=re.S)
open(p, 'w').write(s)
