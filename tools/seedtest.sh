#!/bin/bash
# tools/seedtest.sh <patch.diff> <C01> [C04 ...] : apply a seeded change to /repo, run the named quick checks, undo.
set -u
PATCH="$(realpath "$1")"; shift
cd /repo || exit 2
git diff --quiet || { echo "repo not clean"; exit 2; }
git apply "$PATCH" || { echo "patch does not apply"; exit 2; }
for P in "$@"; do
  OUT=$(cd /verif && timeout 1500 ./run "$P" --tier "${TIER:-quick}" --no-evidence 2>&1)
  RC=$?
  echo "== $P exit=$RC"
  echo "$OUT" | grep "^violated\|^HARNESS" | sed 's/ inputs=.*//' | cut -c1-220 | sort | uniq -c | sort -rn | head -6
done
git -C /repo checkout -- .
