#!/bin/bash
# tools/seedtest_wt.sh <patch.diff> <C01> [C04 ...] : like seedtest.sh, but without touching /repo: the seeded change
# is applied in a scratch worktree of /repo HEAD and the checks read the source from there (VF_REPO_SRC).
set -u
PATCH="$(realpath "$1")"; shift
WT=/tmp/wt_seedtest_$$
git -C /repo worktree add -q --detach "$WT" HEAD || exit 2
trap 'git -C /repo worktree remove --force "$WT" >/dev/null 2>&1' EXIT
git -C "$WT" apply "$PATCH" || { echo "patch does not apply"; exit 2; }
for P in "$@"; do
  OUT=$(cd /verif && VF_REPO_SRC="$WT/src" timeout 1500 ./run "$P" --tier "${TIER:-quick}" --no-evidence 2>&1)
  RC=$?
  echo "== $P exit=$RC"
  echo "$OUT" | grep "^violated\|^HARNESS" | sed 's/ inputs=.*//' | cut -c1-220 | sort | uniq -c | sort -rn | head -6
done
