#!/usr/bin/env python3
''' tools/storeseed.py <src dir> <name e.g. C05-3> <needs> <detected_by> [<strengthened text>]
Copy a confirmed seeded change (patch.diff, demo.py, notes.md, stubs ...) under /verif/seeded with its metadata. '''
import json, os, shutil, sys
HERE = os.path.dirname(os.path.dirname(os.path.abspath(__file__)))
src, name, needs, det = sys.argv[1:5]
how = sys.argv[5] if len(sys.argv) > 5 else None
prop = name.split('-')[0]
dst = os.path.join(HERE, 'seeded', name)
if os.path.exists(dst):
    shutil.rmtree(dst)
shutil.copytree(src, dst, ignore=shutil.ignore_patterns('__pycache__', 'out_*.txt', '*.pyc'))
meta = dict(property=prop, breaks=prop, needs_to_manifest=needs,
            origin='independent sub-agent given only the property text and a scratch worktree',
            confirmed=dict(how='tools/verify_seed.sh in a fresh scratch worktree of /repo HEAD', demo_clean_exit=0,
                           demo_patched_exit=1, pinned_tests_with_patch='59 passed, 10 collection errors (as baseline)'),
            checks_run='tools/seedtest_wt.sh <patch> (quick tier): exit 1 with VIOLATION', detected_by=det,
            missed_initially=bool(how))
if how:
    meta['strengthened'] = how
json.dump(meta, open(os.path.join(dst, 'meta.json'), 'w'), indent=1)
print('stored', dst)
