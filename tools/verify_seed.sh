#!/bin/bash
# tools/verify_seed.sh <seed dir with patch.diff demo.py> : confirm in a scratch worktree that the demo passes on the
# clean tree, and that with the patch the pinned test suite still passes and the demo fails.
set -u
D="$1"
WT=/tmp/wt_verify_$$
git -C /repo worktree add -q --detach "$WT" HEAD || exit 2
trap 'git -C /repo worktree remove --force "$WT" >/dev/null 2>&1' EXIT
cd "$D"
DTN_SRC="$WT/src" timeout 600 /venv/bin/python demo.py >/tmp/vs_clean.txt 2>&1; A=$?
git -C "$WT" apply "$D/patch.diff" || { echo "patch does not apply"; exit 2; }
T=$(cd "$WT" && timeout 900 /venv/bin/python -m pytest -q -p no:cacheprovider --timeout=900 --continue-on-collection-errors 2>&1 | tail -1)
DTN_SRC="$WT/src" timeout 600 /venv/bin/python demo.py >/tmp/vs_patched.txt 2>&1; B=$?
echo "$D: demo clean exit=$A, patched exit=$B; tests: $T"
