''' Verification framework for dtn-demo-agent: symbolic executor, instrumenting loader, stand-ins. '''
