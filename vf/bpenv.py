''' One real bp.agent.Agent with the stand-in bus, a recording convergence-layer adaptor and a recording
application step (DESIGN 5.0, family B1). '''
import re
from gi.repository import GLib
import dbus.service
from .engine import Cut, cur, blen

_REGISTERED = []


def _register():
    if _REGISTERED:
        return
    import bp.app.admin      # noqa: F401  (registers 'admin')
    import bp.app.fragment   # noqa: F401
    import bp.app.bpsec      # noqa: F401
    from bp.app.base import app, AbstractApplication
    from bp.util import ChainStep

    @app('vfrecorder')
    class Recorder(AbstractApplication):
        ''' Application step which records every bundle that reaches it marked for delivery. '''
        ORDER = 25

        def __init__(self, *a, **k):
            super().__init__(*a, **k)
            self.delivered = []

        def add_chains(self, rx_chain, tx_chain):
            rx_chain.append(ChainStep(order=self.ORDER, name='vf recorder', action=self._rec))

        def _rec(self, ctr):
            if 'deliver' in ctr.actions:
                self.delivered.append(ctr)
    _REGISTERED.append(Recorder)


class RecordingCL(object):
    ''' The adaptor interface the agent uses for transmission: send_bundle_func(raw_config) -> callable(data). '''

    def __init__(self, world, name):
        self.world = world
        self.name = name
        self.serv_name = None

    def send_bundle_func(self, raw_config):
        def send(data):
            self.world.sent.append(data)
        return send


CTR_COUNT = [0, None]   # BundleContainer instances created in this run, cap (unwinding bound)


def _guard_containers():
    import bp.util
    cls = bp.util.BundleContainer
    if getattr(cls, '_vf_guarded', False):
        return
    orig = cls.__init__

    def init(self, *a, **k):
        CTR_COUNT[0] += 1
        if CTR_COUNT[1] is not None and CTR_COUNT[0] > CTR_COUNT[1]:
            raise Cut('more than %d bundle containers created' % CTR_COUNT[1])
        orig(self, *a, **k)
    cls.__init__ = init
    cls._vf_guarded = True
    # formatting stub: repr(container) is used for log lines only; empty body on symbolic paths
    from .engine import Ctx
    real_repr = cls.__repr__

    def ctr_repr(self, *a, **k):
        if Ctx.cur is not None and Ctx.cur.mode == 'sym':
            return '<BundleContainer>'
        return real_repr(self, *a, **k)
    cls.__repr__ = ctr_repr


class BpWorld(object):
    def __init__(self, node_id='dtn://node/', idle_cap=None, ctr_cap=None, **cfgkw):
        _register()
        import bp.agent
        import bp.config
        _guard_containers()
        CTR_COUNT[0] = 0
        CTR_COUNT[1] = ctr_cap
        GLib.reset()
        dbus.service.reset()
        if idle_cap is not None:
            GLib.STATE.idle_cap = idle_cap
        self.bp = bp
        cfg = bp.config.Config()
        cfg.node_id = node_id
        for k, v in cfgkw.items():
            setattr(cfg, k, v)
        self.cfg = cfg
        self.agent = bp.agent.Agent(cfg, bus_kwargs=dict(conn=None, object_path='/org/ietf/dtn/bp/Agent'))
        self.sent = []
        self.agent._cl_agent['tcpcl'] = RecordingCL(self, 'tcpcl')
        self.recorder = self.agent._app['vfrecorder']
        self.raised = []

    @property
    def delivered(self):
        return self.recorder.delivered

    def add_tx_route(self, pattern='.*', mtu=None, next_nodeid='dtn://next/', cl_type='tcpcl'):
        self.cfg.tx_route_table.append(self.bp.config.TxRouteItem(
            eid_pattern=re.compile(pattern), next_nodeid=next_nodeid, cl_type=cl_type, mtu=mtu, raw_config={}))

    def add_rx_route(self, pattern, action):
        self.cfg.rx_route_table.append(self.bp.config.RxRouteItem(eid_pattern=re.compile(pattern), action=action))

    def send(self, ctr):
        ''' Application-side send request; exceptions are observations. '''
        try:
            self.agent.send_bundle(ctr)
            return None
        except Exception as err:
            self.raised.append(err)
            return err

    def recv(self, data):
        ''' A convergence layer hands over a received bundle (boundary used by bp.cla adaptors). '''
        from bp.util import BundleContainer
        from bp.encoding import Bundle
        try:
            self.agent._cl_recv_bundle_finish('tcpcl')(data, {})
        except Exception as err:
            # the adaptor callback runs from a D-Bus signal handler: an exception escapes the event loop callback
            self.raised.append(err)
            GLib.STATE.escaped.append(('recv_bundle_finish', err))

    def run_idle(self, max_steps=100):
        n = 0
        while True:
            ids = [sid for sid in sorted(GLib.STATE.sources) if GLib.STATE.sources[sid].kind == 'idle']
            if not ids:
                return n
            if n >= max_steps:
                raise Cut('more than %d idle dispatches' % max_steps)
            GLib.dispatch(ids[0])
            n += 1

    def escaped(self):
        return list(GLib.STATE.escaped)
