''' Check runner: explores every case of a property harness symbolically, validates paths
concretely against the implementation, replays counterexamples, applies the known-findings
file, writes the evidence file and sets the exit code (0 held / 1 violation / 2 harness error). '''
import sys
import os
import json
import time
import hashlib
import random
import traceback
import importlib
import logging
import concurrent.futures as cf

VERIF = os.path.dirname(os.path.dirname(os.path.abspath(__file__)))
EXIT_OK, EXIT_VIOLATION, EXIT_HARNESS = 0, 1, 2


def setup_runtime():
    ''' Install the instrumenting loader and stand-ins; must precede any repo import. '''
    for p in (os.path.join(VERIF, 'standins'), VERIF):
        if p not in sys.path:
            sys.path.insert(0, p)
    from vf import loader
    loader.install()
    from vf import rt
    rt._late()
    if os.environ.get("VF_LOG"):
        logging.basicConfig(level=logging.DEBUG)
    else:
        logging.disable(logging.CRITICAL)
    import types
    # formatting stub: repr(packet) is used for log lines only; on symbolic paths it gets an empty body
    import scapy.packet
    from vf.engine import Ctx
    _repr = scapy.packet.Packet.__repr__

    def _pkt_repr(self):
        if Ctx.cur is not None and Ctx.cur.mode == 'sym':
            return '<%s>' % type(self).__name__
        return _repr(self)
    scapy.packet.Packet.__repr__ = _pkt_repr
    if 'bp.app' not in sys.modules:
        # bp/app/__init__ imports sand/safe/zeroconf (need zeroconf, ifaddr, EDHOC): import the
        # anchored applications only
        import bp
        pkg = types.ModuleType('bp.app')
        pkg.__path__ = [os.path.join(loader.REPO_SRC, 'bp', 'app')]
        pkg.__package__ = 'bp.app'
        sys.modules['bp.app'] = pkg
        bp.app = pkg


def _jsonable(x):
    from vf.engine import _plain
    return _plain(x)


def run_case(mod_name, case, tier, seed, validate_n):
    ''' Worker: one case, symbolic exploration + validation + replay. Returns a plain dict. '''
    from vf.engine import Ctx, Inconclusive, Unsupported, EngineSignal, eval_obs, _plain
    from vf import rt
    mod = importlib.import_module(mod_name)
    t0 = time.time()
    try:
        import resource
        resource.setrlimit(resource.RLIMIT_AS, (12 << 30, 12 << 30))
    except Exception:
        pass
    out = dict(case=case, paths=0, stats=None, violations=[], errors=[], validated=0, val_skipped=0,
               samples=[], notes=[], cut_what={}, classes={})
    qt = getattr(mod, 'QTIMEOUT_MS', {}).get(tier, 10000 if tier == 'quick' else 60000)
    ctx = Ctx('sym', qtimeout_ms=qt, max_paths=getattr(mod, 'MAX_PATHS', {}).get(tier, 20000),
              small_limit=getattr(mod, 'SMALL_LIMIT', 3000))
    ctx.max_seconds = getattr(mod, 'CASE_SECONDS', {}).get(tier, 240 if tier == 'quick' else 2400)
    fn = lambda: mod.harness(dict(case), tier)
    path_models = []

    def on_path(pr):
        if pr.kind == 'ok':
            path_models.append((pr.inputs, pr.small, _plain(pr.value, pr.model),
                                eval_safe(pr.value, pr.model) if pr.small else ('err', 'large model')))

    def eval_safe(v, m):
        try:
            return ('ok', eval_obs(v, m))
        except EngineSignal as err:
            return ('err', repr(err))

    try:
        results = ctx.explore(fn, on_path)
    except Inconclusive as err:
        out['errors'].append('inconclusive: %s' % err)
        results = []
    except Unsupported as err:
        out['errors'].append('unsupported: %s\n%s' % (err, traceback.format_exc()))
        results = []
    except EngineSignal as err:
        out['errors'].append('engine: %r' % err)
        results = []
    except Exception:
        out['errors'].append('harness exception on symbolic path (trail %r):\n%s' % (ctx.trail, traceback.format_exc()))
        results = []
    if out['errors'] and getattr(ctx, 'fail_inputs', None) is not None:
        # The exploration stopped inside a path (operation not modelled, or an exception).  The case stays
        # inconclusive, but one point of that path is run concretely: an obligation that fails there is a real
        # counterexample and is reported as such.
        c2 = Ctx('conc', inputs=ctx.fail_inputs)
        try:
            c2.run_concrete(lambda: mod.harness(dict(case), tier))
        except BaseException as err:
            out['errors'].append('concrete run at the stopping point raised %r' % (err,))
        for (label, detail) in c2.conc_failures:
            if not any(v['label'] == label for v in out['violations']):
                out['violations'].append(dict(label=label, inputs=ctx.fail_inputs, detail=detail, count=1))
    out['stats'] = ctx.stats.as_dict()
    out['paths'] = ctx.stats.paths
    out['notes'] = ctx.notes[:20]
    if ctx.stats.inconclusive:
        out['errors'].append('%d inconclusive obligations' % ctx.stats.inconclusive)
    out['functions'] = sorted(rt.ENTERED)
    for r in results:
        if r.kind == 'ok' and isinstance(r.value, dict) and 'class' in r.value:
            k = str(r.value['class'])
            out['classes'][k] = out['classes'].get(k, 0) + 1

    # ---- counterexample replay (dedupe by label)
    seen = {}
    for v in ctx.violations:
        seen.setdefault(v.label, []).append(v)
    for label, vs in sorted(seen.items()):
        reproduced = None
        tried = []
        for v in sorted(vs, key=lambda v: not getattr(v, 'small', True))[:4]:
            if not getattr(v, 'small', True):
                tried.append('only counterexamples with sizes too large to replay')
                continue
            ok, why = replay(mod, case, tier, v.inputs, label)
            tried.append(why)
            if ok:
                reproduced = v
                break
        if reproduced is None:
            out['errors'].append('counterexample for %s does not reproduce concretely: %s inputs=%r' % (
                label, tried[:2], vs[0].inputs))
        else:
            out['violations'].append(dict(label=label, inputs=reproduced.inputs, detail=reproduced.detail,
                                          count=len(vs)))

    # ---- per-path concrete validation
    rnd = random.Random(seed)
    idx = list(range(len(path_models)))
    if validate_n is not None and len(idx) > validate_n:
        idx = sorted(rnd.sample(idx, validate_n))
    for i in idx:
        inputs, small, plain, ev = path_models[i]
        if not small or ev[0] != 'ok':
            out['val_skipped'] += 1
            continue
        c2 = Ctx('conc', inputs=inputs)
        try:
            conc = c2.run_concrete(lambda: mod.harness(dict(case), tier))
        except EngineSignal as err:
            out['errors'].append('concrete run raised engine signal %r for inputs %r' % (err, inputs))
            continue
        except Exception:
            out['errors'].append('concrete run failed for inputs %r:\n%s' % (inputs, traceback.format_exc()))
            continue
        a = norm_obs(ev[1])
        b = norm_obs(conc)
        if a != b:
            out['errors'].append('path validation mismatch for inputs %r:\n symbolic: %r\n concrete: %r' % (
                inputs, a, b))
        else:
            out['validated'] += 1
    for i in idx[:2]:
        out['samples'].append(dict(inputs=path_models[i][0], observed=path_models[i][2]))
    out['wall_s'] = time.time() - t0
    # plain data only across the process boundary
    return json.loads(json.dumps(out, default=repr))


def norm_obs(x):
    ''' Canonical comparable form of an observation. '''
    if isinstance(x, (bytes, bytearray)):
        return bytes(x)
    if isinstance(x, bool) or x is None:
        return x
    if isinstance(x, int):
        return int(x)
    if isinstance(x, str):
        return str(x)
    if isinstance(x, dict):
        return tuple(sorted(((norm_obs(k), norm_obs(v)) for k, v in x.items()), key=repr))
    if isinstance(x, (list, tuple)):
        return tuple(norm_obs(i) for i in x)
    if isinstance(x, (set, frozenset)):
        return tuple(sorted((norm_obs(i) for i in x), key=repr))
    return repr(x)


def replay(mod, case, tier, inputs, label):
    ''' Concrete re-run; True if the obligation `label` fails concretely too. '''
    from vf.engine import Ctx, EngineSignal
    c2 = Ctx('conc', inputs=inputs)
    try:
        c2.run_concrete(lambda: mod.harness(dict(case), tier))
    except EngineSignal as err:
        return False, 'engine signal %r' % (err,)
    except Exception:
        return False, 'exception %s' % traceback.format_exc()
    labels = [l for (l, _d) in c2.conc_failures]
    if label in labels:
        return True, 'reproduced'
    return False, 'concrete run failed only %r' % (labels,)


def load_known(prop):
    known = []
    fixed = []
    path = os.path.join(VERIF, 'known_findings.txt')
    if os.path.exists(path):
        for line in open(path):
            line = line.strip()
            if not line or line.startswith('#'):
                continue
            if line.startswith('known:'):
                parts = line[len('known:'):].split(None, 2)
                kv = dict(p.split('=', 1) for p in parts[:2])
                if kv.get('property') == prop:
                    known.append((kv['key'], parts[2] if len(parts) > 2 else ''))
            elif line.startswith('fixed:'):
                fixed.append(line)
    return known, fixed


def main(argv=None):
    argv = argv or sys.argv[1:]
    import argparse
    ap = argparse.ArgumentParser()
    ap.add_argument('prop')
    ap.add_argument('--tier', default=os.environ.get('VERIF_TIER', 'quick'))
    ap.add_argument('--replay')
    ap.add_argument('--jobs', type=int, default=int(os.environ.get('VERIF_JOBS', '16')))
    ap.add_argument('--case', help='run only cases whose key contains this text')
    ap.add_argument('--no-evidence', action='store_true')
    args = ap.parse_args(argv)
    prop = args.prop.upper()
    tier = args.tier
    seed = int(os.environ.get('VERIF_SEED', '0') or 0)
    setup_runtime()
    mod_name = 'checks.%s' % prop.lower()
    mod = importlib.import_module(mod_name)
    t0 = time.time()

    if args.replay:
        rec = json.load(open(args.replay))
        ok, why = replay(mod, rec['case'], rec.get('tier', tier), rec['inputs'], rec['label'])
        print('replay %s: %s' % (args.replay, why))
        if ok:
            print('VIOLATION property=%s replay=%s' % (prop, args.replay))
            return EXIT_VIOLATION
        return EXIT_OK

    cases = mod.cases(tier)
    if args.case:
        cases = [c for c in cases if args.case in case_key(c)]
    validate_n = None if tier == 'thorough' else getattr(mod, 'QUICK_VALIDATE', 6)
    results = []
    if args.jobs <= 1 or len(cases) == 1:
        for c in cases:
            results.append(run_case(mod_name, c, tier, seed, validate_n))
    else:
        with cf.ProcessPoolExecutor(max_workers=min(args.jobs, len(cases))) as ex:
            futs = [ex.submit(run_case, mod_name, c, tier, seed, validate_n) for c in cases]
            for f in futs:
                try:
                    results.append(f.result())
                except Exception:
                    results.append(dict(case={}, paths=0, stats=None, violations=[], validated=0, val_skipped=0,
                                        samples=[], notes=[], classes={}, functions=[],
                                        errors=['worker crashed: %s' % traceback.format_exc()]))

    # ---- aggregate
    from vf.engine import Stats
    total = Stats()
    errors = []
    violations = []
    functions = set()
    samples = []
    validated = 0
    skipped = 0
    classes = {}
    for r in results:
        if r['stats']:
            s = Stats()
            s.__dict__.update(r['stats'])
            total.add(s)
        for e in r['errors']:
            errors.append('[%s] %s' % (case_key(r['case']), e))
        for v in r['violations']:
            v = dict(v)
            v['case'] = r['case']
            violations.append(v)
        functions.update(r.get('functions', []))
        validated += r['validated']
        skipped += r['val_skipped']
        for k, n in r.get('classes', {}).items():
            classes[k] = classes.get(k, 0) + n
        if r['samples'] and len(samples) < 6:
            samples.append(dict(case=r['case'], **r['samples'][0]))

    # required path classes (vacuity guard)
    need = getattr(mod, 'REQUIRED_CLASSES', {}).get(tier, getattr(mod, 'REQUIRED_CLASSES', {}).get('all', []))
    for k in need:
        if not classes.get(k):
            errors.append('vacuity: no completed path of class %r' % k)
    if total.paths - total.cut_paths <= 0:
        errors.append('vacuity: no completed path')

    known, fixed = load_known(prop)
    os.makedirs(os.path.join(VERIF, 'replay'), exist_ok=True)
    new_violations = []
    known_hits = {}
    for v in violations:
        hit = None
        for (key, desc) in known:
            if v['label'] == key:
                hit = (key, desc)
                break
        if hit:
            known_hits.setdefault(hit, []).append(v)
            continue
        h = hashlib.sha1(json.dumps([v['case'], v['label'], v['inputs']], sort_keys=True, default=str).encode()).hexdigest()[:10]
        path = os.path.join(VERIF, 'replay', '%s-%s.json' % (prop, h))
        with open(path, 'w') as f:
            json.dump(dict(property=prop, tier=tier, case=v['case'], label=v['label'], inputs=v['inputs'],
                           detail=v['detail']), f, indent=1, default=str)
        v['replay'] = path
        new_violations.append(v)

    wall = time.time() - t0
    if not args.no_evidence:
        ev = dict(
            property_id=prop, tier=tier, seed=seed, level='model_checking',
            coverage=dict(
                states=max(total.paths, 0), transitions=max(total.forks, 0),
                traces_validated_against_impl=validated,
                samples=samples or [dict(note='no completed path')],
                obligations=total.obligations, discharged=total.discharged,
                cut_paths=total.cut_paths, cut_reasons=total.cut_what, inconclusive=total.inconclusive,
                solver_queries=total.queries, solver_sat=total.q_sat, solver_unsat=total.q_unsat,
                solver_unknown=total.q_unknown, solver_s=round(total.solver_s, 3),
                cases=len(cases), path_classes=classes, validation_skipped_large_model=skipped,
                functions_encoded=sorted(functions),
                bounds=getattr(mod, 'BOUNDS', {}).get(tier, getattr(mod, 'BOUNDS', {})),
                stubs=getattr(mod, 'STUBS', []),
                exhaustive=(not errors and total.inconclusive == 0),
                explanation='bounded symbolic execution of the real code: states = completed symbolic paths '
                            '(each covers every input value satisfying its path condition), transitions = fork '
                            'decisions, obligations = solver queries "path condition and not property", '
                            'cut_paths = paths beyond an unwinding bound (outside the claim)',
                known_findings=[dict(key=k, what=d, instances=len(vs)) for (k, d), vs in known_hits.items()],
                harness_errors=errors[:10],
            ),
            assumptions=getattr(mod, 'ASSUMPTIONS', []),
            wall_s=round(wall, 2),
            violations=len(new_violations),
        )
        os.makedirs(os.path.join(VERIF, 'evidence'), exist_ok=True)
        with open(os.path.join(VERIF, 'evidence', '%s.json' % prop), 'w') as f:
            json.dump(ev, f, indent=1, default=str)

    print('%s %s: cases=%d paths=%d (cut %d) forks=%d obligations=%d discharged=%d queries=%d solver=%.1fs '
          'validated=%d wall=%.1fs' % (prop, tier, len(cases), total.paths, total.cut_paths, total.forks,
                                        total.obligations, total.discharged, total.queries, total.solver_s,
                                        validated, wall))
    slow = sorted(results, key=lambda r: -r.get('wall_s', 0))[:3]
    print('slowest cases: %s' % '; '.join('%s %.0fs/%dp' % (case_key(r['case']), r.get('wall_s', 0), r['paths']) for r in slow))
    for (k, d), vs in sorted(known_hits.items()):
        print('KNOWN-FINDING: property=%s %s (%s; %d paths, e.g. inputs %s)' % (
            prop, d, k, sum(v.get('count', 1) for v in vs), json.dumps(vs[0]['inputs'], default=str)[:200]))
    for e in errors[:20]:
        print('HARNESS-ERROR: %s' % e)
    if new_violations:
        for v in new_violations:
            print('violated: %s case=%s inputs=%s detail=%s' % (
                v['label'], case_key(v['case']), json.dumps(v['inputs'], default=str)[:300], str(v['detail'])[:300]))
            print('VIOLATION property=%s replay=%s' % (prop, v['replay']))
        return EXIT_VIOLATION
    if errors:
        return EXIT_HARNESS
    return EXIT_OK


def case_key(c):
    return ','.join('%s=%s' % (k, c[k]) for k in sorted(c))


if __name__ == '__main__':
    sys.exit(main())
