''' dict / set twins that also accept keys containing symbolic values
(lookup forks on key equality).  Identical behaviour for ordinary keys. '''
from .engine import has_sym

_MISSING = object()


def _same(a, b):
    try:
        return bool(a == b)
    except TypeError:
        return False


class VDict(dict):
    def __init__(self, *a, **k):
        dict.__init__(self)
        self._sym = []     # [key, value] pairs whose key contains a proxy
        if a or k:
            for kk, vv in dict(*a, **k).items():
                self[kk] = vv

    # ---- internals
    def _find_sym(self, k):
        for i, (kk, _v) in enumerate(self._sym):
            if kk is k or _same(kk, k):
                return i
        return None

    def _find_conc(self, k):
        ''' k contains a proxy: compare with every concrete key. '''
        for kk in dict.keys(self):
            if _same(kk, k):
                return kk
        return _MISSING

    def _lookup(self, k):
        if has_sym(k):
            i = self._find_sym(k)
            if i is not None:
                return ('s', i)
            kk = self._find_conc(k)
            if kk is not _MISSING:
                return ('c', kk)
            return None
        if self._sym:
            i = self._find_sym(k)
            if i is not None:
                return ('s', i)
        if dict.__contains__(self, k):
            return ('c', k)
        return None

    # ---- mapping API
    def __getitem__(self, k):
        r = self._lookup(k)
        if r is None:
            raise KeyError(k)
        return self._sym[r[1]][1] if r[0] == 's' else dict.__getitem__(self, r[1])

    def __setitem__(self, k, v):
        r = self._lookup(k)
        if r is None:
            if has_sym(k):
                self._sym.append([k, v])
            else:
                dict.__setitem__(self, k, v)
        elif r[0] == 's':
            self._sym[r[1]][1] = v
        else:
            dict.__setitem__(self, r[1], v)

    def __delitem__(self, k):
        r = self._lookup(k)
        if r is None:
            raise KeyError(k)
        if r[0] == 's':
            self._sym.pop(r[1])
        else:
            dict.__delitem__(self, r[1])

    def __contains__(self, k):
        return self._lookup(k) is not None

    def get(self, k, d=None):
        r = self._lookup(k)
        if r is None:
            return d
        return self._sym[r[1]][1] if r[0] == 's' else dict.__getitem__(self, r[1])

    def pop(self, k, *d):
        r = self._lookup(k)
        if r is None:
            if d:
                return d[0]
            raise KeyError(k)
        if r[0] == 's':
            return self._sym.pop(r[1])[1]
        return dict.pop(self, r[1])

    def setdefault(self, k, d=None):
        r = self._lookup(k)
        if r is None:
            self[k] = d
            return d
        return self._sym[r[1]][1] if r[0] == 's' else dict.__getitem__(self, r[1])

    def keys(self):
        return list(dict.keys(self)) + [k for k, _ in self._sym]

    def values(self):
        return list(dict.values(self)) + [v for _, v in self._sym]

    def items(self):
        return list(dict.items(self)) + [(k, v) for k, v in self._sym]

    def __iter__(self):
        return iter(self.keys())

    def __len__(self):
        return dict.__len__(self) + len(self._sym)

    def __bool__(self):
        return len(self) > 0

    def clear(self):
        dict.clear(self)
        self._sym = []

    def copy(self):
        r = VDict()
        for k, v in self.items():
            r[k] = v
        return r

    def update(self, *a, **k):
        for kk, vv in dict(*a, **k).items():
            self[kk] = vv

    def __eq__(self, o):
        if not isinstance(o, dict):
            return False
        if len(self) != len(o):
            return False
        for k, v in self.items():
            if k not in o or not _same(o[k], v):
                return False
        return True

    def __ne__(self, o):
        return not self.__eq__(o)

    def __repr__(self):
        return 'VDict(%r)' % (self.items(),)

    def __reduce__(self):
        return (VDict, (), None, None, iter(self.items()))


class VSet(object):
    ''' set twin. '''

    def __init__(self, it=()):
        self._d = VDict()
        for i in it:
            self._d[i] = True

    @property
    def __class__(self):
        return set

    def add(self, x):
        self._d[x] = True

    def remove(self, x):
        del self._d[x]

    def discard(self, x):
        self._d.pop(x, None)

    def __contains__(self, x):
        return x in self._d

    def __iter__(self):
        return iter(self._d.keys())

    def __len__(self):
        return len(self._d)

    def __bool__(self):
        return len(self._d) > 0

    def clear(self):
        self._d.clear()

    def copy(self):
        return VSet(self)

    def __or__(self, o):
        r = VSet(self)
        for i in o:
            r.add(i)
        return r

    def update(self, o):
        for i in o:
            self.add(i)

    def __eq__(self, o):
        try:
            items = list(o)
        except TypeError:
            return False
        return len(items) == len(self) and all(i in self for i in items)

    def __repr__(self):
        return 'VSet(%r)' % (self._d.keys(),)
