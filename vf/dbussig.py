''' D-Bus signature grammar and a value checker modelled on dbus-python marshalling rules.
check(sig, values) returns a list of problems; range facts about symbolic ints are returned as
obligations (SBool) for the caller to prove. '''
from .engine import SInt, SBool, SStr, SBuf, is_sym

RANGES = {'y': (0, 255), 'q': (0, 2 ** 16 - 1), 'n': (-2 ** 15, 2 ** 15 - 1), 'u': (0, 2 ** 32 - 1),
          'i': (-2 ** 31, 2 ** 31 - 1), 't': (0, 2 ** 64 - 1), 'x': (-2 ** 63, 2 ** 63 - 1)}


def split(sig):
    ''' Split a signature into complete types. '''
    out = []
    i = 0
    while i < len(sig):
        j = _end(sig, i)
        out.append(sig[i:j])
        i = j
    return out


def _end(sig, i):
    c = sig[i]
    if c == 'a':
        return _end(sig, i + 1)
    if c in '({':
        close = ')' if c == '(' else '}'
        depth = 0
        j = i
        while True:
            if sig[j] in '({':
                depth += 1
            elif sig[j] in ')}':
                depth -= 1
                if depth == 0:
                    return j + 1
            j += 1
    return i + 1


class Result(object):
    def __init__(self):
        self.problems = []       # definite type errors (strings)
        self.obligations = []    # (SBool/bool, text) range conditions to prove

    def bad(self, msg):
        self.problems.append(msg)


def check_value(t, v, res, where):
    import dbus
    if t in RANGES:
        if isinstance(v, (SBool,)) or isinstance(v, bool) and type(v) is bool:
            # dbus-python accepts bool for integer types (bool is an int)
            return
        if isinstance(v, SInt):
            lo, hi = RANGES[t]
            res.obligations.append(((v >= lo) & (v <= hi), '%s: value within %s range' % (where, t)))
            return
        if isinstance(v, (SStr, SBuf)) or not isinstance(v, int):
            res.bad('%s: %s given for integer type %r' % (where, type(v).__name__ if not is_sym(v) else 'str/bytes', t))
            return
        lo, hi = RANGES[t]
        res.obligations.append((lo <= int(v) <= hi, '%s: value within %s range' % (where, t)))
        return
    if t == 'b':
        if isinstance(v, (SBool, SInt)) or isinstance(v, (bool, int)):
            return
        res.bad('%s: %s given for boolean' % (where, type(v).__name__))
        return
    if t in ('s', 'o', 'g'):
        if isinstance(v, SStr) or type(v).__name__ == 'SFmt':
            return
        if isinstance(v, (SInt, SBuf)) or not isinstance(v, str):
            res.bad('%s: %s given for string type %r' % (where, 'int/bytes' if is_sym(v) else type(v).__name__, t))
            return
        if t == 'o' and not v.startswith('/'):
            res.bad('%s: %r is not an object path' % (where, v))
        return
    if t == 'd':
        if isinstance(v, (int, float)) and not is_sym(v):
            return
        res.bad('%s: %r for double' % (where, type(v).__name__))
        return
    if t == 'v':
        check_variant(v, res, where)
        return
    if t.startswith('a{'):
        inner = t[2:-1]
        kt, vt = inner[0], inner[1:]
        if not isinstance(v, dict):
            res.bad('%s: %s given for dictionary' % (where, type(v).__name__))
            return
        for k, val in v.items():
            check_value(kt, k, res, '%s key %r' % (where, k))
            check_value(vt, val, res, '%s[%r]' % (where, k))
        return
    if t == 'ay':
        if isinstance(v, SBuf) or type(v) in (bytes, bytearray) or isinstance(v, dbus.ByteArray):
            return
        if type(v).__name__ == 'SByteArray':
            return
        if isinstance(v, (list, tuple)):
            for i, e in enumerate(v):
                check_value('y', e, res, '%s[%d]' % (where, i))
            return
        res.bad('%s: %s given for byte array' % (where, type(v).__name__))
        return
    if t.startswith('a'):
        if isinstance(v, (str, bytes, SStr, SBuf)) or isinstance(v, dict):
            res.bad('%s: %s given for array' % (where, type(v).__name__))
            return
        try:
            items = list(v)
        except TypeError:
            res.bad('%s: %s is not iterable for array' % (where, type(v).__name__))
            return
        for i, e in enumerate(items):
            check_value(t[1:], e, res, '%s[%d]' % (where, i))
        return
    if t.startswith('('):
        inner = split(t[1:-1])
        if not isinstance(v, (tuple, list)) or len(v) != len(inner):
            res.bad('%s: struct arity' % where)
            return
        for it, e in zip(inner, v):
            check_value(it, e, res, where)
        return
    res.bad('%s: unsupported signature %r' % (where, t))


def check_variant(v, res, where):
    ''' dbus-python guesses the signature of a variant from the Python type:
    str -> s, bool -> b, int -> i (int32), float -> d, bytes -> ay, list -> array, dict -> dict. '''
    import dbus
    if v is None:
        res.bad('%s: None cannot be sent over D-Bus' % where)
        return
    if isinstance(v, (SStr,)) or type(v).__name__ == 'SFmt' or (isinstance(v, str) and not is_sym(v)):
        return
    if isinstance(v, SBool) or type(v) is bool:
        return
    if isinstance(v, SInt):
        res.obligations.append(((v >= -2 ** 31) & (v <= 2 ** 31 - 1), '%s: int in variant fits int32' % where))
        return
    if isinstance(v, SBuf) or type(v) in (bytes, bytearray):
        return
    for cls, code in ((dbus.UInt64, 't'), (dbus.Int64, 'x'), (dbus.UInt32, 'u'), (dbus.UInt16, 'q'), (dbus.Byte, 'y'),
                      (dbus.Int32, 'i')):
        if isinstance(v, cls):
            check_value(code, int(v), res, where)
            return
    if isinstance(v, int):
        if not (-2 ** 31 <= int(v) <= 2 ** 31 - 1):
            res.bad('%s: int %r in variant does not fit int32' % (where, v))
        return
    if isinstance(v, float):
        return
    if isinstance(v, dict):
        for k, val in v.items():
            check_variant(k, res, where + ' key')
            check_variant(val, res, '%s[%r]' % (where, k))
        return
    if isinstance(v, (list, tuple)):
        for e in v:
            check_variant(e, res, where + '[]')
        return
    res.bad('%s: %s cannot be sent over D-Bus' % (where, type(v).__name__))


def check(sig, values, where=''):
    res = Result()
    types = split(sig or '')
    if len(types) != len(values):
        # a method with out_signature '' returns None
        if not types and len(values) == 1 and values[0] is None:
            return res
        if len(types) > 1 and len(values) == 1 and isinstance(values[0], tuple) and len(values[0]) == len(types):
            values = values[0]
        else:
            res.bad('%s: %d values for signature %r' % (where, len(values), sig))
            return res
    for i, (t, v) in enumerate(zip(types, values)):
        check_value(t, v, res, '%s arg %d' % (where, i))
    return res
