''' Path-forking symbolic executor over z3 (see DESIGN.md section 2).

The harness is an ordinary Python function run once per path.  Symbolic values
are proxies (SInt, SBool, SBuf, SStr); a branch on a symbolic condition asks z3
which sides are feasible, follows one and queues the other decision prefix.
The same harness runs in *concrete mode* (inputs taken from a model, every
proxy replaced by a plain Python value) for per-path validation and for
counterexample replay.
'''
import time
import z3

Z = z3


class EngineSignal(BaseException):
    ''' Base of engine control flow; BaseException so that library code which
    swallows Exception (scapy dissectors) cannot hide it. '''


class PathAbort(EngineSignal):
    ''' The current path is infeasible. '''


class Cut(EngineSignal):
    ''' An unwinding bound was exceeded: the path is outside the claim. '''

    def __init__(self, what):
        EngineSignal.__init__(self, what)
        self.what = what


class Inconclusive(EngineSignal):
    ''' The solver could not decide (unknown / too many values). '''


class Unsupported(EngineSignal):
    ''' An operation on a symbolic value that the engine does not model. '''


class Stats(object):
    def __init__(self):
        self.paths = 0
        self.cut_paths = 0
        self.forks = 0
        self.queries = 0
        self.q_sat = 0
        self.q_unsat = 0
        self.q_unknown = 0
        self.solver_s = 0.0
        self.obligations = 0
        self.discharged = 0
        self.violations = 0
        self.inconclusive = 0
        self.cut_what = {}

    def add(self, o):
        for k, v in o.__dict__.items():
            if isinstance(v, dict):
                d = getattr(self, k)
                for kk, vv in v.items():
                    d[kk] = d.get(kk, 0) + vv
            else:
                setattr(self, k, getattr(self, k) + v)

    def as_dict(self):
        return dict(self.__dict__)


class Violation(object):
    def __init__(self, label, detail, inputs, decisions):
        self.label = label
        self.detail = detail
        self.inputs = inputs
        self.decisions = decisions

    def as_dict(self):
        return dict(label=self.label, detail=self.detail, inputs=self.inputs)


class Prefix(list):
    ''' A queued decision prefix, optionally with a model witnessing its feasibility. '''

    def __init__(self, items, model=None):
        list.__init__(self, items)
        self.model = model


class PathResult(object):
    def __init__(self):
        self.kind = None      # 'ok' | 'cut' | 'exc'
        self.value = None
        self.pc = None
        self.decisions = None
        self.inputs = None    # model of the path condition (name -> value)
        self.small = False    # model has replayable sizes


class Ctx(object):
    ''' One exploration (symbolic) or one concrete run. '''
    cur = None

    def __init__(self, mode='sym', inputs=None, qtimeout_ms=10000, cap=64, max_paths=200000,
                 small_limit=3000):
        self.mode = mode
        self.conc_inputs = dict(inputs or {})
        self.qtimeout_ms = qtimeout_ms
        self.cap = cap
        self.max_paths = max_paths
        self.small_limit = small_limit
        self.stats = Stats()
        self.violations = []
        self.conc_failures = []
        self.functions = set()
        self.samples = []
        self._fresh = 0
        if mode == 'sym':
            self.solver = z3.Solver()
            self.solver.set('timeout', qtimeout_ms)
        self.stack = []
        self.inputs = []      # (name, z3 var, kind) of the current path
        self.sizes = []       # z3 vars that are sizes (for small models)
        self.pc = []
        self.trail = []
        self.pos = 0
        self._model = None
        self._replay_model = None
        self.notes = []

    # ------------------------------------------------------------------ inputs
    def sym_int(self, name, lo=None, hi=None, size=False):
        ''' A symbolic integer input (or its concrete value in concrete mode). '''
        if self.mode == 'conc':
            v = self.conc_inputs.get(name)
            if v is None:
                v = lo if lo is not None else 0
            return int(v)
        v = z3.Int(name)
        self.inputs.append((name, v, 'int'))
        if size:
            self.sizes.append(v)
        if lo is not None:
            self._assume(v >= lo)
        if hi is not None:
            self._assume(v <= hi)
        return SInt(v)

    def sym_bool(self, name):
        if self.mode == 'conc':
            return bool(self.conc_inputs.get(name, 0))
        v = z3.Int(name)
        self.inputs.append((name, v, 'int'))
        self._assume(z3.And(v >= 0, v <= 1))
        return SBool(v == 1)

    def sym_bytes(self, name, n):
        ''' n symbolic octets. '''
        if self.mode == 'conc':
            return bytes(int(self.conc_inputs.get('%s_%d' % (name, i), 0)) for i in range(n))
        items = []
        for i in range(n):
            v = z3.Int('%s_%d' % (name, i))
            self.inputs.append(('%s_%d' % (name, i), v, 'int'))
            self._assume(z3.And(v >= 0, v <= 255))
            items.append(SInt(v))
        return SBuf.mk([Lit(items)])

    def sym_bytes_bv(self, name, n):
        ''' n symbolic octets backed by 8-bit vectors (for bit-precise CRC reasoning). '''
        if self.mode == 'conc':
            return bytes(int(self.conc_inputs.get('%s_%d' % (name, i), 0)) for i in range(n))
        items = []
        for i in range(n):
            v = z3.BitVec('%s_%d' % (name, i), 8)
            self.inputs.append(('%s_%d' % (name, i), v, 'bv'))
            items.append(SInt(z3.BV2Int(v)))
        return SBuf.mk([Lit(items)])

    def sym_blob(self, name, length):
        ''' Opaque octets of (possibly symbolic) length with provenance. '''
        if self.mode == 'conc':
            return conc_blob(name, int(length))
        src = BlobSrc(name, length)
        return SBuf.mk([Ref(src, 0, length)])

    def fresh(self, prefix='t'):
        self._fresh += 1
        return '%s!%d' % (prefix, self._fresh)

    # ------------------------------------------------------------------ solver
    def _assume(self, c):
        self.pc.append(c)
        self.solver.add(c)
        if self._model is not None:
            try:
                if not z3.is_true(self._model.eval(c, model_completion=True)):
                    self._model = None
            except z3.Z3Exception:
                self._model = None

    def assume(self, c):
        ''' Add an assumption (harness precondition); aborts the path if infeasible. '''
        if self.mode == 'conc':
            if not bool(c):
                raise PathAbort()
            return
        if isinstance(c, SBool):
            c = c.e
        elif isinstance(c, bool):
            if not c:
                raise PathAbort()
            return
        self._assume(c)
        r = self._check()
        if r == 'unknown':
            raise Inconclusive('assume: unknown')
        if r != 'sat':
            raise PathAbort()

    def _check(self, extra=None):
        t = time.time()
        self.stats.queries += 1
        if extra is not None:
            self.solver.push()
            self.solver.add(extra)
        try:
            r = self.solver.check()
            rs = str(r)
            if rs == 'sat':
                m = self.solver.model()
                if extra is None:
                    self._model = m
                self._last_model = m
        except z3.Z3Exception as err:
            rs = 'unknown'
            self.notes.append('solver exception: %s' % err)
        finally:
            if extra is not None:
                self.solver.pop()
        if rs == 'unknown' and extra is not None:
            rs2 = self._check_cone(extra)
            if rs2 is not None:
                rs = rs2
        self.stats.solver_s += time.time() - t
        if rs == 'sat':
            self.stats.q_sat += 1
        elif rs == 'unsat':
            self.stats.q_unsat += 1
        else:
            self.stats.q_unknown += 1
        return rs

    def _check_cone(self, extra):
        ''' Fallback for a query the default solver gave up on: decide `extra` together with the part of the path
        condition that shares variables with it (its cone of influence) in a fresh solver.  Sound in both
        directions because the rest of the (satisfiable) path condition has disjoint variables. '''
        def fv(e, acc, seen):
            stack = [e]
            while stack:
                x = stack.pop()
                k = x.get_id()
                if k in seen:
                    continue
                seen.add(k)
                if z3.is_const(x) and x.decl().kind() == z3.Z3_OP_UNINTERPRETED:
                    acc.add(x.decl().name())
                else:
                    stack.extend(x.children())
            return acc
        try:
            evars = fv(extra, set(), set())
            pcv = [(p, fv(p, set(), set())) for p in self.pc]
            cone = set(evars)
            chosen = []
            changed = True
            rest = list(pcv)
            while changed:
                changed = False
                keep = []
                for (p, vs) in rest:
                    if vs & cone:
                        chosen.append(p)
                        cone |= vs
                        changed = True
                    else:
                        keep.append((p, vs))
                rest = keep
            s2 = z3.Solver()
            s2.set('timeout', max(self.qtimeout_ms * 3, 30000))
            s2.add(*chosen)
            s2.add(extra)
            r = str(s2.check())
            self.notes.append('cone-of-influence fallback: %d of %d constraints -> %s' % (len(chosen), len(self.pc), r))
            if r == 'sat':
                # extend the cone model to a model of the whole path condition: fix the cone variables
                m2 = s2.model()
                self.solver.push()
                try:
                    self.solver.add(extra)
                    for d in m2.decls():
                        if d.arity() == 0:
                            self.solver.add(d() == m2[d])
                    if str(self.solver.check()) == 'sat':
                        self._last_model = self.solver.model()
                        return 'sat'
                finally:
                    self.solver.pop()
                return None
            if r == 'unsat':
                return 'unsat'
        except z3.Z3Exception as err:
            self.notes.append('cone fallback failed: %s' % err)
        return None

    def model(self):
        if self._model is None and self._replay_model is not None and self.pos >= len(self.trail):
            # the model found when this path was forked off still witnesses the replayed path condition
            m = self._replay_model
            self._replay_model = None
            try:
                if all(z3.is_true(m.eval(p, model_completion=True)) for p in self.pc):
                    self._model = m
            except z3.Z3Exception:
                pass
        if self._model is None:
            r = self._check()
            if r == 'unsat':
                raise PathAbort()
            if r != 'sat':
                raise Inconclusive('path condition: %s' % r)
        return self._model

    def must(self, c):
        ''' Is c true for every value on this path?  (concrete mode: is it true) '''
        if self.mode == 'conc':
            return bool(c)
        if isinstance(c, SBool):
            return not self.feasible(z3.Not(c.e))
        return bool(c)

    def feasible(self, c):
        ''' Is pc /\\ c satisfiable?  (does not fork) '''
        if isinstance(c, SBool):
            c = c.e
        elif not z3.is_expr(c):
            return bool(c)
        r = self._check(c)
        if r == 'unknown':
            raise Inconclusive('feasible(): unknown')
        return r == 'sat'

    # ------------------------------------------------------------------ forking
    def branch(self, cond):
        ''' Fork on a z3 Bool; returns the Python bool for this path. '''
        cond = z3.simplify(cond)
        if z3.is_true(cond):
            return True
        if z3.is_false(cond):
            return False
        if self.pos < len(self.trail):
            d = self.trail[self.pos]
            self.pos += 1
            self._assume(cond if d else z3.Not(cond))
            return d
        m = self.model()
        mv = z3.is_true(m.eval(cond, model_completion=True))
        other = z3.Not(cond) if mv else cond
        r = self._check(other)
        if r == 'unknown':
            raise Inconclusive('branch: unknown')
        if r == 'sat':
            other_model = self._last_model
            self.stats.forks += 1
            # follow True first; the queued False side keeps the model that witnesses it
            d = True
            self.stack.append(Prefix(self.trail + [False], other_model if mv else m))
            if mv is not True:
                self._model = other_model
        else:
            d = mv
        self.trail.append(d)
        self.pos += 1
        self._assume(cond if d else z3.Not(cond))
        return d

    def choose(self, n, label=''):
        ''' Nondeterministic choice among range(n): every value is explored. '''
        if self.mode == 'conc':
            v = int(self.conc_inputs.get('choice!%d' % len(self.choices), 0))
            self.choices.append(v)
            return v
        if n <= 0:
            raise PathAbort()
        if self.pos < len(self.trail):
            d = self.trail[self.pos]
            self.pos += 1
            self.choices.append(d)
            return d
        for v in range(n - 1, 0, -1):
            self.stack.append(self.trail + [v])
        if n > 1:
            self.stats.forks += n - 1
        self.trail.append(0)
        self.pos += 1
        self.choices.append(0)
        return 0

    def concretize(self, e, cap=None, why=''):
        ''' Fork over all feasible values of an Int expression. '''
        e = z3.simplify(e)
        if z3.is_int_value(e):
            return e.as_long()
        cap = cap or self.cap
        if self.pos < len(self.trail):
            v = self.trail[self.pos]
            self.pos += 1
            self._assume(e == v)
            return v
        vals = []
        self.solver.push()
        try:
            while len(vals) <= cap:
                r = self._check()
                if r == 'unknown':
                    raise Inconclusive('concretize: unknown')
                if r != 'sat':
                    break
                v = self._model.eval(e, model_completion=True).as_long()
                vals.append(v)
                self.solver.add(e != v)
        finally:
            self.solver.pop()
            self._model = None
        if len(vals) > cap:
            raise Inconclusive('concretize(%s): more than %d values (%s)' % (why, cap, e))
        if not vals:
            raise PathAbort()
        vals.sort()
        for v in reversed(vals[1:]):
            self.stack.append(self.trail + [v])
        self.stats.forks += len(vals) - 1
        v = vals[0]
        self.trail.append(v)
        self.pos += 1
        self._assume(e == v)
        return v

    # ------------------------------------------------------------------ obligations
    def prove(self, cond, label, detail=None):
        ''' Obligation: cond holds for every value on this path. '''
        self.stats.obligations += 1
        if self.mode == 'conc':
            ok = bool(cond)
            if ok:
                self.stats.discharged += 1
            else:
                self.conc_failures.append((label, _plain(detail)))
            return ok
        if isinstance(cond, SBool):
            e = z3.simplify(cond.e)
        elif z3.is_expr(cond):
            e = z3.simplify(cond)
        else:
            e = z3.BoolVal(bool(cond))
        if z3.is_true(e):
            self.stats.discharged += 1
            return True
        if z3.is_false(e):
            r = 'sat'
            m = self.model()
        else:
            r = self._check(z3.Not(e))
            m = self._last_model if r == 'sat' else None
        small = True
        if r == 'sat' and self.sizes:
            # prefer a counterexample whose sizes can be replayed concretely
            lim = z3.And(z3.BoolVal(True) if z3.is_false(e) else z3.Not(e), *[s <= self.small_limit for s in self.sizes])
            r2 = self._check(lim)
            if r2 == 'sat':
                m = self._last_model
            else:
                small = False
        if r == 'unsat':
            self.stats.discharged += 1
            return True
        if r == 'sat':
            self.stats.violations += 1
            v = Violation(label, _plain(detail, m), self.model_inputs(m), list(self.trail[:self.pos]))
            v.small = small
            self.violations.append(v)
            return False
        self.stats.inconclusive += 1
        self.notes.append('inconclusive obligation %s' % label)
        return False

    def model_inputs(self, m):
        out = {}
        for (name, v, _k) in self.inputs:
            out[name] = m.eval(v, model_completion=True).as_long()
        for i, c in enumerate(self.choices):
            out['choice!%d' % i] = c
        return out

    def small_model(self):
        ''' A model of the path condition whose size-like inputs are small
        enough to be replayed concretely; None if there is none. '''
        if not self.sizes:
            return self.model()
        lim = z3.And(*[s <= self.small_limit for s in self.sizes])
        r = self._check(lim)
        if r == 'sat':
            return self._last_model
        return None

    # ------------------------------------------------------------------ driver
    def explore(self, fn, on_path=None):
        ''' Run fn once per feasible path.  fn() returns observations. '''
        assert self.mode == 'sym'
        self.stack = [[]]
        results = []
        t_end = time.time() + self.max_seconds if getattr(self, 'max_seconds', None) else None
        while self.stack:
            if self.stats.paths >= self.max_paths:
                raise Inconclusive('more than %d paths' % self.max_paths)
            if t_end is not None and time.time() > t_end:
                raise Inconclusive('case exceeded its time budget of %ds after %d paths' % (self.max_seconds, self.stats.paths))
            prefix = self.stack.pop()
            self._replay_model = getattr(prefix, 'model', None)
            self.trail = list(prefix)
            self.pos = 0
            self.pc = []
            self.inputs = []
            self.sizes = []
            self.choices = []
            self._model = None
            self._fresh = 0
            self.solver.push()
            Ctx.cur = self
            pr = PathResult()
            try:
                try:
                    pr.value = fn()
                    pr.kind = 'ok'
                except PathAbort:
                    pr.kind = 'abort'
                except Cut as c:
                    pr.kind = 'cut'
                    pr.value = c.what
                    self.stats.cut_paths += 1
                    self.stats.cut_what[c.what] = self.stats.cut_what.get(c.what, 0) + 1
                except (Unsupported, Exception):
                    # a point of this path, for the runner's concrete fallback
                    self.fail_inputs = None
                    try:
                        m = self.small_model()
                        if m is not None:
                            self.fail_inputs = self.model_inputs(m)
                    except BaseException:
                        pass
                    raise
                if pr.kind != 'abort':
                    pr.pc = list(self.pc)
                    pr.decisions = list(self.trail)
                    m = self.small_model()
                    pr.small = m is not None
                    if m is None:
                        m = self.model()
                    pr.inputs = self.model_inputs(m)
                    pr.model = m
                    self.stats.paths += 1
                    if on_path:
                        on_path(pr)
                    pr.model = None
                    results.append(pr)
            finally:
                self.solver.pop()
                Ctx.cur = None
        return results

    def run_concrete(self, fn):
        assert self.mode == 'conc'
        self.pos = 0
        self.choices = []
        Ctx.cur = self
        try:
            return fn()
        finally:
            Ctx.cur = None


def cur():
    c = Ctx.cur
    if c is None:
        raise Unsupported('symbolic value used outside an exploration')
    return c


def conc_blob(name, n):
    ''' Deterministic concrete content for a blob source. '''
    seed = sum(name.encode()) * 31 + 7
    return bytes(((seed + i * 37 + (i >> 8) * 11) % 251) + 1 for i in range(n))


# ====================================================================== values
def _z(x):
    ''' z3 Int term for an int-like value, or None. '''
    if isinstance(x, SInt):
        return x.e
    if isinstance(x, SBool):
        return z3.If(x.e, 1, 0)
    if isinstance(x, (SBuf, SStr)) or type(x) is SFloat:
        return None
    if isinstance(x, bool):
        return z3.IntVal(int(x))
    if isinstance(x, int):
        return z3.IntVal(int(x))
    if isinstance(x, float) and x.is_integer():
        return z3.IntVal(int(x))
    return None


def bv_of(x):
    ''' The bit-vector behind an int-like value of the form BV2Int(bv), else None. '''
    e = x.e if isinstance(x, SInt) else None
    if e is not None and z3.is_app(e) and e.decl().kind() == z3.Z3_OP_BV2INT:
        return e.arg(0)
    return None


def eq_term(u, v):
    ''' z3 Bool for u == v on int-likes, comparing in bit-vector theory when both sides allow it. '''
    bu, bv_ = bv_of(u), bv_of(v)
    if bu is not None and bv_ is not None and bu.size() == bv_.size():
        return bu == bv_
    if bu is not None and not is_sym(v) and 0 <= int(v) < 2 ** bu.size():
        return bu == z3.BitVecVal(int(v), bu.size())
    if bv_ is not None and not is_sym(u) and 0 <= int(u) < 2 ** bv_.size():
        return bv_ == z3.BitVecVal(int(u), bv_.size())
    return _z(u) == _z(v)


def mk_int(e):
    e = z3.simplify(e)
    if z3.is_int_value(e):
        return e.as_long()
    return SInt(e)


def mk_bool(e):
    e = z3.simplify(e)
    if z3.is_true(e):
        return True
    if z3.is_false(e):
        return False
    return SBool(e)


def is_sym(x):
    return isinstance(x, (SInt, SBool, SBuf, SStr)) or type(x) is SFloat


def has_sym(x):
    ''' Recursively: does a (tuple/list) value contain a proxy? '''
    if isinstance(x, (SInt, SBool, SBuf, SStr)):
        return True
    if isinstance(x, (tuple, list)):
        return any(has_sym(i) for i in x)
    return False


class SBool(object):
    __slots__ = ('e',)

    def __init__(self, e):
        self.e = e

    def __bool__(self):
        return cur().branch(self.e)

    def __invert__(self):
        return mk_bool(z3.Not(self.e))

    def __and__(self, o):
        if isinstance(o, SBool):
            return mk_bool(z3.And(self.e, o.e))
        if isinstance(o, bool):
            return self if o else False
        z = _z(o)
        if z is not None:
            return mk_int(z3.If(self.e, 1, 0)) & o
        return NotImplemented
    __rand__ = __and__

    def __or__(self, o):
        if isinstance(o, SBool):
            return mk_bool(z3.Or(self.e, o.e))
        if isinstance(o, bool):
            return True if o else self
        return NotImplemented
    __ror__ = __or__

    def __eq__(self, o):
        if isinstance(o, SBool):
            return mk_bool(self.e == o.e)
        if isinstance(o, bool):
            return self if o else ~self
        z = _z(o)
        if z is not None:
            return mk_bool(z3.If(self.e, 1, 0) == z)
        return False

    def __ne__(self, o):
        r = self.__eq__(o)
        if isinstance(r, SBool):
            return ~r
        return not r

    def __hash__(self):
        return hash(bool(self))

    def __int__(self):
        return mk_int(z3.If(self.e, 1, 0))

    def __index__(self):
        return int(bool(self))

    def __repr__(self):
        return 'SBool(%s)' % z3.simplify(self.e)

    @property
    def __class__(self):
        return bool


class SInt(object):
    ''' Symbolic mathematical integer. '''
    __slots__ = ('e', 'part', 'bsrc')

    def __init__(self, e, part=None, bsrc=None):
        self.e = e
        self.part = part   # (z3 term v, byte index i, n): this is octet i (0 = least significant) of v encoded in n octets
        self.bsrc = bsrc   # tuple of octet values this int was assembled from (big-endian), if any

    @property
    def __class__(self):
        return int

    # arithmetic
    def _bin(self, o, f):
        z = _z(o)
        if z is None:
            if isinstance(o, float) or type(o) is SFloat:
                return SFloat()
            return NotImplemented
        return mk_int(f(self.e, z))

    def __add__(self, o):
        return self._bin(o, lambda a, b: a + b)
    __radd__ = __add__

    def __sub__(self, o):
        return self._bin(o, lambda a, b: a - b)

    def __rsub__(self, o):
        return self._bin(o, lambda a, b: b - a)

    def __mul__(self, o):
        return self._bin(o, lambda a, b: a * b)
    __rmul__ = __mul__

    def __neg__(self):
        return mk_int(-self.e)

    def __pos__(self):
        return self

    def __abs__(self):
        return mk_int(z3.If(self.e >= 0, self.e, -self.e))

    def __invert__(self):
        return mk_int(-self.e - 1)

    def _posdiv(self, o):
        ''' Divisor must be a positive constant or provably positive. '''
        if isinstance(o, bool):
            o = int(o)
        if isinstance(o, int):
            if o <= 0:
                raise Unsupported('division by non-positive constant')
            return
        if isinstance(o, float):
            raise Unsupported('float division on symbolic int')
        if not (o > 0):
            raise Unsupported('division by possibly non-positive symbolic value')

    def __floordiv__(self, o):
        self._posdiv(o)
        return self._bin(o, lambda a, b: a / b)

    def __rfloordiv__(self, o):
        self._posdiv(self)
        return self._bin(o, lambda a, b: b / a)

    def __mod__(self, o):
        self._posdiv(o)
        return self._bin(o, lambda a, b: a % b)

    def __rmod__(self, o):
        if isinstance(o, (str, bytes)):
            return NotImplemented
        self._posdiv(self)
        return self._bin(o, lambda a, b: b % a)

    def __divmod__(self, o):
        return (self // o, self % o)

    def __truediv__(self, o):
        if isinstance(o, (int, float)) and not is_sym(o) and o == 0:
            raise ZeroDivisionError('division by zero')
        return SFloat()

    def __rtruediv__(self, o):
        if not bool(self != 0):
            raise ZeroDivisionError('division by zero')
        return SFloat()

    def __pow__(self, o):
        if isinstance(o, int) and 0 <= o <= 4:
            r = 1
            for _ in range(o):
                r = r * self
            return r
        raise Unsupported('pow on symbolic int')

    def __rpow__(self, o):
        # 2 ** n and 256 ** n with small n: enumerate
        n = cur().concretize(self.e, why='exponent')
        return o ** n

    def __lshift__(self, o):
        if not isinstance(o, int):
            o = cur().concretize(_z(o), why='shift')
        return self * (1 << o)

    def __rshift__(self, o):
        if not isinstance(o, int):
            o = cur().concretize(_z(o), why='shift')
        return self // (1 << o)

    def __rlshift__(self, o):
        n = cur().concretize(self.e, why='shift')
        return o << n

    def __rrshift__(self, o):
        n = cur().concretize(self.e, why='shift')
        return o >> n

    def _bit(self, b):
        return mk_int((self.e / (1 << b)) % 2)

    def __and__(self, o):
        if isinstance(o, SBool):
            o = o.__int__()
        if isinstance(o, SInt):
            return _bv_op(self, o, lambda a, b: a & b)
        if not isinstance(o, int):
            return NotImplemented
        o = int(o)
        if o < 0:
            # x & ~m == x - (x & m)
            return self - (self & (~o))
        if o == 0:
            return 0
        # contiguous low mask: x mod 2^k
        if (o & (o + 1)) == 0:
            return mk_int(self.e % (o + 1))
        r = 0
        for b in range(o.bit_length()):
            if (o >> b) & 1:
                # group contiguous runs
                r = r + self._bit(b) * (1 << b)
        return r
    __rand__ = __and__

    def __or__(self, o):
        if isinstance(o, SInt):
            return _bv_op(self, o, lambda a, b: a | b)
        if not isinstance(o, int):
            return NotImplemented
        return self + int(o) - (self & int(o))
    __ror__ = __or__

    def __xor__(self, o):
        if isinstance(o, SInt):
            return _bv_op(self, o, lambda a, b: a ^ b)
        if not isinstance(o, int):
            return NotImplemented
        return self + int(o) - 2 * (self & int(o))
    __rxor__ = __xor__

    # comparison
    def _cmp(self, o, f):
        z = _z(o)
        if z is None:
            return NotImplemented
        return mk_bool(f(self.e, z))

    def __eq__(self, o):
        z = _z(o)
        if z is None:
            if isinstance(o, SStr):
                return False
            return False
        return mk_bool(self.e == z)

    def __ne__(self, o):
        z = _z(o)
        if z is None:
            return True
        return mk_bool(self.e != z)

    def __lt__(self, o):
        return self._cmp(o, lambda a, b: a < b)

    def __le__(self, o):
        return self._cmp(o, lambda a, b: a <= b)

    def __gt__(self, o):
        return self._cmp(o, lambda a, b: a > b)

    def __ge__(self, o):
        return self._cmp(o, lambda a, b: a >= b)

    def __bool__(self):
        return cur().branch(self.e != 0)

    def __index__(self):
        return cur().concretize(self.e, why='__index__')

    def __int__(self):
        return cur().concretize(self.e, why='__int__')

    def __hash__(self):
        return hash(cur().concretize(self.e, why='__hash__'))

    def __float__(self):
        raise Unsupported('float() of symbolic int')

    def __repr__(self):
        return 'SInt(%s)' % z3.simplify(self.e)

    def __str__(self):
        raise Unsupported('str() builtin on symbolic int (uninstrumented call site)')

    def __format__(self, spec):
        return '<sym>'

    def bit_length(self):
        raise Unsupported('bit_length of symbolic int')

    def to_bytes(self, length, byteorder='big', signed=False):
        from . import symstruct
        b = symstruct.pack_uint(self, length)
        if byteorder != 'big':
            raise Unsupported('little-endian to_bytes')
        return b

    def conjugate(self):
        return self

    @property
    def real(self):
        return self

    @property
    def value(self):
        # IntEnum / IntFlag compatibility (scapy FlagValue uses .value on ints it wraps)
        return self


class SFloat(object):
    ''' Opaque result of float arithmetic on symbolic ints: every operation yields another opaque
    value and int() of it is an arbitrary integer (sound over-approximation; comparisons unsupported). '''

    @property
    def __class__(self):
        return float

    def _op(self, *a):
        return SFloat()
    __add__ = __radd__ = __sub__ = __rsub__ = __mul__ = __rmul__ = _op
    __truediv__ = __rtruediv__ = __neg__ = __pos__ = __abs__ = _op

    def _cmp(self, o):
        raise Unsupported('comparison of an opaque float')
    __lt__ = __le__ = __gt__ = __ge__ = __eq__ = __ne__ = _cmp
    __hash__ = None

    def __bool__(self):
        raise Unsupported('truth of an opaque float')

    def __float__(self):
        raise Unsupported('float() of an opaque float')

    def __int__(self):
        raise Unsupported('int() builtin of an opaque float (uninstrumented call site)')

    def havoc_int(self):
        c = cur()
        v = z3.Int(c.fresh('havoc'))
        c.inputs.append((str(v), v, 'int'))
        return SInt(v)

    def __repr__(self):
        return 'SFloat(?)'

    def __format__(self, spec):
        return '<sym-float>'


def _bv_op(a, b, f, width=64):
    ''' Bitwise op on two symbolic non-negative ints below 2**width. '''
    c = cur()
    ok = z3.And(a.e >= 0, b.e >= 0, a.e < 2 ** width, b.e < 2 ** width)
    if c.feasible(z3.Not(ok)):
        raise Unsupported('bitwise op on symbolic ints outside [0,2^%d)' % width)
    return mk_int(z3.BV2Int(f(z3.Int2BV(a.e, width), z3.Int2BV(b.e, width))))


def neg(x):
    ''' Logical negation for bool / SBool (Python's ~ on a bool is an int). '''
    if isinstance(x, SBool):
        return ~x
    return not x


def ite(c, a, b):
    ''' Symbolic if-then-else on ints (no fork). '''
    if isinstance(c, bool):
        return a if c else b
    return mk_int(z3.If(c.e, _z(a), _z(b)))


def smin(a, b):
    if not is_sym(a) and not is_sym(b):
        return min(a, b)
    return ite(a <= b, a, b)


def smax(a, b):
    if not is_sym(a) and not is_sym(b):
        return max(a, b)
    return ite(a >= b, a, b)


class SStr(object):
    ''' str() of a symbolic int: only round-trips and equality are modelled. '''
    __slots__ = ('v',)

    def __init__(self, v):
        self.v = v

    @property
    def __class__(self):
        return str

    def __eq__(self, o):
        if isinstance(o, SStr):
            return self.v == o.v
        if isinstance(o, str):
            try:
                iv = int(o)
            except ValueError:
                return False
            if str(iv) != o:
                return False
            return self.v == iv
        return False

    def __ne__(self, o):
        r = self.__eq__(o)
        if isinstance(r, SBool):
            return ~r
        return not r

    def __hash__(self):
        return hash(str(cur().concretize(self.v.e, why='hash(str)')))

    def __repr__(self):
        return 'SStr(%r)' % (self.v,)

    def __str__(self):
        return '<sym-str>'

    def __format__(self, spec):
        return '<sym-str>'

    def __sym_len__(self):
        raise Unsupported('len(str(symbolic int))')


# ====================================================================== buffers
class BlobSrc(object):
    ''' Identity of an opaque octet source. '''

    def __init__(self, name, length):
        self.name = name
        self.length = length

    def __repr__(self):
        return '<%s>' % self.name


class Lit(object):
    ''' Octets of concrete count; each item an int or an SInt in [0,255]. '''
    __slots__ = ('items',)

    def __init__(self, items):
        self.items = list(items)


class Ref(object):
    ''' length octets of src starting at start (both may be symbolic). '''
    __slots__ = ('src', 'start', 'length')

    def __init__(self, src, start, length):
        self.src = src
        self.start = start
        self.length = length


def _eqz(a, b):
    ''' Syntactic equality of two int-likes. '''
    if not is_sym(a) and not is_sym(b):
        return a == b
    return z3.eq(z3.simplify(_z(a)), z3.simplify(_z(b)))


class SBuf(object):
    ''' Octet string made of literal and opaque pieces. '''
    __slots__ = ('pieces',)

    def __init__(self, pieces):
        self.pieces = pieces

    @property
    def __class__(self):
        return bytes

    @staticmethod
    def mk(pieces):
        out = []
        for p in pieces:
            if isinstance(p, Lit):
                if not p.items:
                    continue
                if out and isinstance(out[-1], Lit):
                    out[-1] = Lit(out[-1].items + p.items)
                else:
                    out.append(p)
            else:
                if not is_sym(p.length) and p.length == 0:
                    continue
                if out and isinstance(out[-1], Ref) and out[-1].src is p.src and _eqz(out[-1].start + out[-1].length, p.start):
                    q = out[-1]
                    out[-1] = Ref(q.src, q.start, q.length + p.length)
                else:
                    out.append(p)
        if not out:
            return b''
        if len(out) == 1 and isinstance(out[0], Lit) and not any(isinstance(i, SInt) for i in out[0].items):
            return bytes(out[0].items)
        return SBuf(out)

    @staticmethod
    def of(x):
        ''' View any bytes-like as a piece list. '''
        if isinstance(x, SBuf):
            return x.pieces
        if isinstance(x, (bytes, bytearray, memoryview)):
            return [Lit(list(bytes(x)))] if len(x) else []
        if isinstance(x, str):
            return [Lit(list(x.encode('latin1')))] if x else []
        raise Unsupported('not bytes-like: %r' % type(x))

    # ---- length
    def __sym_len__(self):
        t = 0
        for p in self.pieces:
            t = t + (len(p.items) if isinstance(p, Lit) else p.length)
        return t

    def __len__(self):
        n = self.__sym_len__()
        if is_sym(n):
            raise Unsupported('builtin len() of symbolic-length buffer (uninstrumented call site)')
        return n

    def __bool__(self):
        n = self.__sym_len__()
        return bool(n != 0)

    def is_lit(self):
        return all(isinstance(p, Lit) for p in self.pieces)

    def lit_items(self):
        out = []
        for p in self.pieces:
            if not isinstance(p, Lit):
                if bool(p.length == 0):
                    continue
                raise Unsupported('octet access into opaque blob')
            out += p.items
        return out

    def __iter__(self):
        return iter(self.lit_items())

    # ---- slicing
    def _split(self, k):
        ''' Split at octet offset k (int or SInt, 0 <= k): (head pieces, tail pieces);
        k beyond the end gives (all, []).  Forks on the piece the offset falls in. '''
        head = []
        rest = list(self.pieces)
        while rest:
            if not is_sym(k) and k == 0:
                break
            p = rest[0]
            plen = len(p.items) if isinstance(p, Lit) else p.length
            if bool(k >= plen):
                head.append(p)
                rest.pop(0)
                k = k - plen
                continue
            # 0 <= k < plen : cut inside p (k == 0 -> nothing from p)
            if isinstance(p, Lit):
                if is_sym(k):
                    k = cur().concretize(k.e, cap=max(cur().cap, len(p.items) + 1), why='cut inside literal')
                if k > 0:
                    head.append(Lit(p.items[:k]))
                    rest[0] = Lit(p.items[k:])
            else:
                if bool(k > 0):
                    head.append(Ref(p.src, p.start, k))
                    rest[0] = Ref(p.src, p.start + k, p.length - k)
            break
        return head, rest

    def _norm_index(self, k, default):
        if k is None:
            return default
        if bool(k < 0):
            n = self.__sym_len__()
            k = n + k
            if bool(k < 0):
                k = 0
        return k

    def __getitem__(self, k):
        if isinstance(k, slice):
            if k.step not in (None, 1):
                raise Unsupported('buffer slice with step')
            start = self._norm_index(k.start, 0)
            if k.stop is None:
                _h, t = self._split(start)
                return SBuf.mk(t)
            stop = self._norm_index(k.stop, None)
            if bool(stop <= start):
                return b''
            h, _t = self._split(stop)
            hb = SBuf.mk(h)
            if not is_sym(start) and start == 0:
                return hb
            if not isinstance(hb, SBuf):
                return hb[int(start) if not is_sym(start) else cur().concretize(start.e, why='slice start'):]
            _h2, t2 = hb._split(start)
            return SBuf.mk(t2)
        # single octet
        k = self._norm_index(k, 0)
        h, t = self._split(k)
        if not t:
            raise IndexError('index out of range')
        while t and not isinstance(t[0], Lit) and bool(t[0].length == 0):
            t.pop(0)
        if not t:
            raise IndexError('index out of range')
        p = t[0]
        if not isinstance(p, Lit):
            raise Unsupported('octet access into opaque blob')
        return p.items[0]

    # ---- concatenation
    def __add__(self, o):
        if isinstance(o, (SBuf, bytes, bytearray, memoryview)):
            return SBuf.mk(list(self.pieces) + list(SBuf.of(o)))
        return NotImplemented

    def __radd__(self, o):
        if isinstance(o, (bytes, bytearray, memoryview)):
            return SBuf.mk(list(SBuf.of(o)) + list(self.pieces))
        return NotImplemented

    __iadd__ = __add__

    def __mul__(self, n):
        raise Unsupported('buffer repetition')

    # ---- comparison
    def __eq__(self, o):
        if isinstance(o, str) or o is None:
            return False
        if not isinstance(o, (SBuf, bytes, bytearray)):
            return False
        return same_bytes(self, o)

    def __ne__(self, o):
        r = self.__eq__(o)
        if isinstance(r, SBool):
            return ~r
        return not r

    def __hash__(self):
        raise Unsupported('hash of symbolic buffer')

    def __contains__(self, x):
        raise Unsupported('"in" on symbolic buffer')

    def __repr__(self):
        parts = []
        for p in self.pieces:
            if isinstance(p, Lit):
                parts.append('lit[%d]' % len(p.items))
            else:
                parts.append('%r[%r:+%r]' % (p.src, p.start, p.length))
        return 'SBuf(%s)' % ' '.join(parts)

    def __bytes__(self):
        return self

    def decode(self, *a, **k):
        raise Unsupported('decode() of symbolic buffer')

    def hex(self):
        return '<sym-buf>'

    def startswith(self, prefix):
        n = len(prefix)
        return bool(self[:n] == prefix)

    def tobytes(self):
        return self


def blen(x):
    ''' len() for bytes-like and anything else. '''
    f = getattr(type(x), '__sym_len__', None)
    if f is not None:
        return f(x)
    return len(x)


def same_bytes(a, b):
    ''' Octet-for-octet equality of two buffers as bool/SBool.
    Forks on the relative alignment of opaque pieces. '''
    la = blen(a)
    lb = blen(b)
    if not bool(la == lb):
        return False
    pa = list(SBuf.of(a))
    pb = list(SBuf.of(b))
    conj = []
    while pa and pb:
        x = pa[0]
        y = pb[0]
        xl = len(x.items) if isinstance(x, Lit) else x.length
        yl = len(y.items) if isinstance(y, Lit) else y.length
        if bool(xl == 0):
            pa.pop(0)
            continue
        if bool(yl == 0):
            pb.pop(0)
            continue
        # take the common prefix length n = min(xl, yl)
        if bool(xl <= yl):
            n = xl
        else:
            n = yl
        if isinstance(x, Lit) and isinstance(y, Lit):
            if is_sym(n):
                n = cur().concretize(n.e, why='same_bytes')
            for i in range(n):
                u, v = x.items[i], y.items[i]
                if is_sym(u) or is_sym(v):
                    conj.append(eq_term(u, v))
                elif u != v:
                    return False
            x2 = Lit(x.items[n:])
            y2 = Lit(y.items[n:])
        elif isinstance(x, Ref) and isinstance(y, Ref):
            if x.src is not y.src:
                return False
            conj.append(_z(x.start) == _z(y.start))
            x2 = Ref(x.src, x.start + n, x.length - n)
            y2 = Ref(y.src, y.start + n, y.length - n)
        else:
            # opaque content vs literal octets: never provably equal
            return False
        if bool(xl - n == 0):
            pa.pop(0)
        else:
            pa[0] = x2
        if bool(yl - n == 0):
            pb.pop(0)
        else:
            pb[0] = y2
    # leftovers must be empty (lengths are equal)
    if not conj:
        return True
    return mk_bool(z3.And(*conj))


def _plain(x, m=None):
    ''' JSON-able rendering of observations (under a model if given). '''
    if x is None or isinstance(x, (bool, int, str, float)) and not is_sym(x):
        return x
    if isinstance(x, SInt):
        if m is not None:
            return m.eval(x.e, model_completion=True).as_long()
        return 'sym(%s)' % z3.simplify(x.e)
    if isinstance(x, SBool):
        if m is not None:
            return z3.is_true(m.eval(x.e, model_completion=True))
        return 'sym(%s)' % z3.simplify(x.e)
    if isinstance(x, SStr):
        return 'str(%s)' % _plain(x.v, m)
    if type(x).__name__ == 'SFmt':
        return x.template % tuple(_plain(a, m) for a in x.args)
    if isinstance(x, SBuf):
        out = []
        for p in x.pieces:
            if isinstance(p, Lit):
                vals = [_plain(i, m) for i in p.items]
                if all(isinstance(v, int) for v in vals):
                    out.append(bytes(vals).hex())
                else:
                    out.append(vals)
            else:
                out.append([p.src.name, _plain(p.start, m), _plain(p.length, m)])
        return {'buf': out}
    if isinstance(x, (bytes, bytearray)):
        return bytes(x).hex() if len(x) <= 64 else bytes(x[:64]).hex() + '...(%d)' % len(x)
    if isinstance(x, dict):
        return {str(_plain(k, m)): _plain(v, m) for k, v in x.items()}
    if isinstance(x, (list, tuple, set, frozenset)):
        return [_plain(i, m) for i in x]
    return repr(x)


def eval_obs(x, m):
    ''' Evaluate an observation structure under a model to concrete Python values
    (buffers become bytes; opaque pieces use conc_blob content). '''
    if isinstance(x, SInt):
        return m.eval(x.e, model_completion=True).as_long()
    if isinstance(x, SBool):
        return z3.is_true(m.eval(x.e, model_completion=True))
    if isinstance(x, SStr):
        return str(eval_obs(x.v, m))
    if type(x).__name__ == 'SFmt':
        return x.template % tuple(eval_obs(a, m) for a in x.args)
    if isinstance(x, SBuf):
        out = b''
        for p in x.pieces:
            if isinstance(p, Lit):
                out += bytes(eval_obs(i, m) for i in p.items)
            else:
                st = eval_obs(p.start, m)
                ln = eval_obs(p.length, m)
                total = eval_obs(p.src.length, m)
                if isinstance(p.src, BlobSrc):
                    out += conc_blob(p.src.name, total)[st:st + ln]
                else:
                    raise Unsupported('eval_obs of non-blob source')
        return out
    if isinstance(x, bytearray):
        return bytes(x)
    if isinstance(x, dict):
        return {eval_obs(k, m): eval_obs(v, m) for k, v in x.items()}
    if isinstance(x, tuple):
        return tuple(eval_obs(i, m) for i in x)
    if isinstance(x, list):
        return [eval_obs(i, m) for i in x]
    if hasattr(x, '__int__') and isinstance(x, int) and type(x) is not int and type(x) is not bool:
        return int(x)
    return x
