''' Ideal (Dolev-Yao) cryptography under the real pycose message classes.

pycose keeps doing what it does (headers, message structures, Mac_structure / Enc_structure construction through
CBOR, recipients); only the primitives at the bottom are replaced:
  MAC:      tag = opaque token; verify succeeds iff the token was issued for the same key and the same
            to-be-MACed octets (compared symbolically, so altered-by-any-value content is decided by the solver)
  AEAD:     ciphertext = opaque token; decrypt returns the plaintext iff same key, nonce and AAD, else raises
  key wrap: opaque token; unwrap iff same key-encryption key
  ECDSA:    signature = opaque token; verify iff issued for the same key pair and octets
and pycose's references to cbor2 are redirected to vf.symcbor so that structures may contain symbolic buffers.
The strength of HMAC / AES-GCM / AES-KW / ECDSA is assumed, not checked. '''
import sys
from .engine import Ctx, same_bytes, SBuf, blen
from . import symcbor

TABLE = {'path': None, 'entries': []}
_INSTALLED = []


def _entries():
    c = Ctx.cur
    key = (id(c), c.stats.paths if c is not None and c.mode == 'sym' else id(c))
    if TABLE['path'] != key:
        TABLE['path'] = key
        TABLE['entries'] = []
    return TABLE['entries']


def reset():
    TABLE['path'] = None
    TABLE['entries'] = []


def _token(kind, n, length):
    base = b'\x1d\xea' + kind.encode() + n.to_bytes(4, 'big')
    if length is None:
        return base
    return (base + b'\x00' * length)[:max(length, 8)]


def _keybytes(key):
    k = getattr(key, 'k', None)
    if k is not None:
        return ('sym', bytes(k))
    # asymmetric: identified by its public coordinates
    return ('asym', bytes(getattr(key, 'x', b'') or b''), bytes(getattr(key, 'y', b'') or b''))


def _same(a, b):
    r = same_bytes(a, b)
    return bool(r)


def _syn(x):
    ''' Syntactic fingerprint of a buffer (terms as text, opaque pieces by source and bounds). '''
    out = []
    for piece in SBuf.of(x):
        if hasattr(piece, 'items'):
            out.append(tuple(str(getattr(it, 'e', it)) for it in piece.items))
        else:
            out.append((id(piece.src), str(getattr(piece.start, 'e', piece.start)), str(getattr(piece.length, 'e', piece.length))))
    return tuple(out)


def _must_same(a, b):
    ''' Syntactically the same octets (sufficient, not necessary, for equality; never forks). '''
    try:
        return _syn(a) == _syn(b)
    except Exception:
        return False


def install():
    if _INSTALLED:
        return
    import pycose.algorithms as A
    from cryptography.exceptions import InvalidTag, InvalidSignature
    import pycose.messages.cosemessage, pycose.messages.cosebase, pycose.messages.maccommon
    import pycose.messages.enccommon, pycose.messages.recipient, pycose.messages.signer
    import pycose.messages.sign1message, pycose.messages.signmessage, pycose.messages.context
    for name, mod in list(sys.modules.items()):
        if name.startswith('pycose.messages') and getattr(mod, 'cbor2', None) is not None:
            mod.cbor2 = symcbor

    # ---- pycose's exact-type checks: accept symbolic buffers and the dict twin of instrumented code
    from pycose.messages.cosebase import CoseBase
    from pycose.messages.cosemessage import CoseMessage
    base_init = CoseBase.__init__

    def init(self, phdr=None, uhdr=None, payload=None, phdr_encoded=None, *args, **kwargs):
        if isinstance(phdr, dict) and type(phdr) is not dict:
            phdr = dict(phdr.items())
        if isinstance(uhdr, dict) and type(uhdr) is not dict:
            uhdr = dict(uhdr.items())
        sym_payload = None
        if type(payload) is SBuf:
            sym_payload, payload = payload, None
        base_init(self, phdr, uhdr, payload, phdr_encoded, *args, **kwargs)
        if sym_payload is not None:
            self._payload = sym_payload
    CoseBase.__init__ = init

    def set_payload(self, new_payload):
        if new_payload is not None and type(new_payload) not in (bytes, SBuf):
            raise TypeError("payload should be of type 'bytes' not {}".format(type(new_payload)))
        self._payload = new_payload
    CoseMessage.payload = property(lambda self: self._payload, set_payload)

    def set_aad(self, new_external_aad):
        if type(new_external_aad) not in (bytes, SBuf):
            raise TypeError("external_aad must be of type 'bytes'")
        self._external_aad = new_external_aad
    CoseMessage.external_aad = property(lambda self: self._external_aad, set_aad)

    # ---- MAC
    def compute_tag(cls, key, data):
        ents = _entries()
        # a MAC is a function: the same key and (provably) the same octets give the same tag
        for e in ents:
            if e['kind'] == 'mac' and e['key'] == _keybytes(key) and _must_same(e['data'], data):
                return e['token']
        tok = _token('M', len(ents), cls.get_digest_length())
        ents.append(dict(kind='mac', key=_keybytes(key), data=data, token=tok))
        return tok

    def verify_tag(cls, key, tag, data):
        for e in _entries():
            if e['kind'] == 'mac' and _same(tag, e['token']):
                return e['key'] == _keybytes(key) and _same(e['data'], data)
        return False
    for base in (A._HMAC, A._AesMac):
        base.compute_tag = classmethod(compute_tag)
        base.verify_tag = classmethod(verify_tag)

    # ---- AEAD
    def encrypt(cls, key, nonce, data, aad):
        ents = _entries()
        # encryption is a function of key, nonce, AAD and plaintext
        for e in ents:
            if (e['kind'] == 'enc' and e['key'] == _keybytes(key) and e['nonce'] == bytes(nonce)
                    and _must_same(e['aad'], aad) and _must_same(e['data'], data)):
                return e['token']
        n = blen(data)
        if hasattr(n, 'e'):
            # plaintext of symbolic length: the ciphertext is a fresh opaque blob of length n + 16
            tok = Ctx.cur.sym_blob('ciphertext%d' % len(ents), n + 16)
        else:
            tok = _token('C', len(ents), int(n) + 16)
        ents.append(dict(kind='enc', key=_keybytes(key), nonce=bytes(nonce), aad=aad, data=data, token=tok))
        return tok

    def decrypt(cls, key, nonce, ciphertext, aad):
        for e in _entries():
            if e['kind'] == 'enc' and _same(ciphertext, e['token']):
                if e['key'] == _keybytes(key) and e['nonce'] == bytes(nonce) and _same(e['aad'], aad):
                    return e['data']
                break
        raise InvalidTag()
    for base in (A._AesGcm, A._AesCcm):
        base.encrypt = classmethod(encrypt)
        base.decrypt = classmethod(decrypt)

    # ---- key wrap
    def key_wrap(cls, kek, data):
        ents = _entries()
        tok = _token('W', len(ents), len(data) + 8)
        ents.append(dict(kind='wrap', key=_keybytes(kek), data=bytes(data), token=tok))
        return tok

    def key_unwrap(cls, kek, data):
        for e in _entries():
            if e['kind'] == 'wrap' and _same(data, e['token']):
                if e['key'] == _keybytes(kek):
                    return e['data']
                break
        raise InvalidTag()
    A._AesKw.key_wrap = classmethod(key_wrap)
    A._AesKw.key_unwrap = classmethod(key_unwrap)

    # ---- signatures
    def sign(cls, key, data):
        ents = _entries()
        tok = _token('S', len(ents), 64)
        ents.append(dict(kind='sig', key=_keybytes(key), data=data, token=tok))
        return tok

    def verify(cls, key, data, signature):
        for e in _entries():
            if e['kind'] == 'sig' and _same(signature, e['token']):
                return e['key'] == _keybytes(key) and _same(e['data'], data)
        return False
    A._Ecdsa.sign = classmethod(sign)
    A._Ecdsa.verify = classmethod(verify)
    _INSTALLED.append(True)
