''' Import-time instrumentation: repo modules (read from the current working tree)
and a few scapy modules are compiled through an AST transformer that redirects
builtins which cannot be overloaded by a proxy to the dispatchers in vf.rt.
Semantics for ordinary values are unchanged. '''
import ast
import sys
import os
import builtins
from importlib.machinery import PathFinder, SourceFileLoader

REPO_SRC = os.environ.get('VF_REPO_SRC', '/repo/src')

# builtin name -> dispatcher
CALLS = {
    'len': 'b_len', 'int': 'b_int', 'str': 'b_str', 'bytes': 'b_bytes', 'bytearray': 'b_bytearray',
    'range': 'b_range', 'float': 'b_float', 'set': 'b_set', 'dict': 'b_dict',
}
# module name -> replacement module (import rewriting)
MODS = {
    'struct': 'vf.symstruct',
    'cbor2': 'vf.symcbor',
    'binascii': 'vf.symbinascii',
}
# from X import name -> from Y import name
FROMS = {
    ('io', 'BytesIO'): 'vf.symio',
    ('io', 'BufferedReader'): 'vf.symio',
}

# scapy modules that handle buffers and field values
SCAPY_MODS = {'scapy.packet', 'scapy.fields', 'scapy.compat', 'scapy.contrib.sdnv', 'scapy.base_classes'}

ENTERED = set()   # (module, function) names entered — reported as functions_encoded


class T(ast.NodeTransformer):
    def __init__(self, modname, is_repo):
        self.modname = modname
        self.is_repo = is_repo
        self.cls = []

    def _vf(self, attr):
        return ast.Attribute(value=ast.Name('__vf__', ast.Load()), attr=attr, ctx=ast.Load())

    def visit_Call(self, node):
        self.generic_visit(node)
        f = node.func
        if isinstance(f, ast.Name) and CALLS.get(f.id):
            if f.id in ('set', 'dict') and (node.args or node.keywords):
                return node
            node.func = self._vf(CALLS[f.id])
        elif isinstance(f, ast.Attribute) and f.attr == 'join' and len(node.args) == 1 and not node.keywords:
            return ast.Call(func=self._vf('m_join'), args=[f.value, node.args[0]], keywords=[])
        return node

    def visit_Compare(self, node):
        self.generic_visit(node)
        if len(node.ops) == 1 and isinstance(node.ops[0], (ast.In, ast.NotIn)):
            call = ast.Call(func=self._vf('contains'), args=[node.comparators[0], node.left], keywords=[])
            if isinstance(node.ops[0], ast.NotIn):
                return ast.UnaryOp(op=ast.Not(), operand=call)
            return call
        return node

    def visit_BinOp(self, node):
        self.generic_visit(node)
        if isinstance(node.op, ast.Mod) and isinstance(node.left, ast.Constant) and isinstance(node.left.value, str):
            return ast.Call(func=self._vf('fmt'), args=[node.left, node.right], keywords=[])
        return node

    def visit_Subscript(self, node):
        self.generic_visit(node)
        if isinstance(node.slice, ast.Slice) and isinstance(node.ctx, ast.Load):
            sl = node.slice
            none = ast.Constant(None)
            return ast.Call(func=self._vf('sl'), args=[node.value, sl.lower or none, sl.upper or none, sl.step or none],
                            keywords=[])
        return node

    def visit_Dict(self, node):
        self.generic_visit(node)
        if not node.keys and self.is_repo:
            return ast.Call(func=self._vf('b_dict'), args=[], keywords=[])
        return node

    def visit_Import(self, node):
        out = []
        for a in node.names:
            if a.name in MODS:
                out.append(ast.Import(names=[ast.alias(name=MODS[a.name], asname=None)]))
                # import vf.symstruct ; struct = vf.symstruct
                tgt = a.asname or a.name
                out.append(ast.Assign(
                    targets=[ast.Name(tgt, ast.Store())],
                    value=ast.Subscript(
                        value=ast.Attribute(value=ast.Name('__vf__', ast.Load()), attr='MODULES', ctx=ast.Load()),
                        slice=ast.Constant(MODS[a.name]), ctx=ast.Load())))
            else:
                out.append(ast.Import(names=[a]))
        return out

    def visit_ImportFrom(self, node):
        if node.level == 0:
            names_keep = []
            out = []
            for a in node.names:
                repl = FROMS.get((node.module, a.name))
                if repl:
                    out.append(ast.ImportFrom(module=repl, names=[a], level=0))
                else:
                    names_keep.append(a)
            if out:
                if names_keep:
                    out.insert(0, ast.ImportFrom(module=node.module, names=names_keep, level=0))
                return out
        return node

    def visit_ClassDef(self, node):
        self.cls.append(node.name)
        self.generic_visit(node)
        self.cls.pop()
        return node

    def _enter(self, node):
        if not self.is_repo:
            return
        qual = '.'.join(self.cls + [node.name])
        mark = ast.Expr(ast.Call(func=self._vf('enter'), args=[ast.Constant(self.modname + ':' + qual)], keywords=[]))
        body = node.body
        ix = 0
        if body and isinstance(body[0], ast.Expr) and isinstance(getattr(body[0], 'value', None), ast.Constant) \
                and isinstance(body[0].value.value, str):
            ix = 1
        # generators: marking at first resume is fine
        node.body = body[:ix] + [mark] + body[ix:]

    def visit_FunctionDef(self, node):
        self.cls.append(node.name)
        self.generic_visit(node)
        self.cls.pop()
        self._enter(node)
        return node


class L(SourceFileLoader):
    def __init__(self, name, path, is_repo):
        SourceFileLoader.__init__(self, name, path)
        self._is_repo = is_repo

    def get_code(self, fullname):
        path = self.get_filename(fullname)
        src = self.get_data(path)
        tree = ast.parse(src, path)
        tree = T(fullname, self._is_repo).visit(tree)
        ast.fix_missing_locations(tree)
        return compile(tree, path, 'exec', dont_inherit=True)


class Finder(object):
    @staticmethod
    def find_spec(name, path=None, target=None):
        if not (name in SCAPY_MODS or name.split('.')[0] in REPO_TOP):
            return None
        spec = PathFinder.find_spec(name, path)
        if spec is None or not spec.origin or not isinstance(spec.loader, SourceFileLoader):
            return spec
        origin = os.path.realpath(spec.origin)
        if origin.startswith(os.path.realpath(REPO_SRC) + os.sep):
            spec.loader = L(spec.loader.name, spec.loader.path, True)
        elif name in SCAPY_MODS:
            spec.loader = L(spec.loader.name, spec.loader.path, False)
        return spec


REPO_TOP = {'tcpcl', 'udpcl', 'btpu', 'bp', 'scapy_cbor', 'pycose_edhoc'}


def install():
    ''' Install the finder and the dispatcher namespace; must run before scapy or any
    repo module is imported. '''
    from . import rt
    if getattr(builtins, '__vf__', None) is rt:
        return
    for m in list(sys.modules):
        if m in SCAPY_MODS or m.split('.')[0] in REPO_TOP:
            raise RuntimeError('vf.loader.install() after import of %s' % m)
    builtins.__vf__ = rt
    if REPO_SRC not in sys.path:
        sys.path.insert(0, REPO_SRC)
    sys.meta_path.insert(0, Finder)
