''' Independent BTP-U message encoder/decoder (message head: type, 4 flag bits, 20-bit length, hint list;
payloads: padding, bundle PDU, transfer segment / end / cancel).  Imports nothing from the repository. '''
from ..engine import SBuf, blen, is_sym, Unsupported
from ..symstruct import pack_uint, unpack_uint

PADDING, BUNDLE, XFER_SEG, XFER_END, XFER_CANCEL = 1, 2, 3, 4, 5


class Malformed(Exception):
    pass


def _uint(buf, n):
    have = blen(buf)
    if bool(have < n):
        raise Malformed('truncated')
    b = buf[:n]
    v = unpack_uint(b.lit_items()) if isinstance(b, SBuf) else int.from_bytes(b, 'big')
    return v, buf[n:]


def decode_set(buf, max_msgs=16):
    ''' A frame: messages until the end or until a zero octet (padding to the end of the frame). '''
    out = []
    while bool(blen(buf) != 0):
        first = buf[0]
        if bool(first == 0):
            break
        if len(out) >= max_msgs:
            raise Unsupported('more than %d messages' % max_msgs)
        m, buf = decode_message(buf)
        out.append(m)
    return out


def decode_message(buf):
    t, buf = _uint(buf, 1)
    w, buf = _uint(buf, 3)
    flags = w // (1 << 20)
    length = w % (1 << 20)
    if bool(length > blen(buf)):
        raise Malformed('declared length beyond the frame')
    body, rest = buf[:length], buf[length:]
    hints = []
    more = bool((flags & 0x8) != 0)
    while more:
        h, body = _uint(body, 1)
        hl, body = _uint(body, 1)
        if bool(hl > blen(body)):
            raise Malformed('hint beyond the message')
        hints.append(dict(type=h // 2, value=body[:hl]))
        body = body[hl:]
        more = bool((h % 2) != 0)
    if is_sym(t):
        from ..engine import cur
        t = cur().concretize(t.e, cap=300, why='btpu type')
    m = dict(type=t, flags=flags, length=length, hints=hints)
    if t in (XFER_SEG, XFER_END):
        m['xfer_num'], body = _uint(body, 4)
        m['seg_idx'], body = _uint(body, 4)
        m['data'] = body
    elif t == XFER_CANCEL:
        m['xfer_num'], body = _uint(body, 4)
        m['data'] = body
    else:
        m['data'] = body
    return m, rest


def encode_message(t, data, hints=(), xfer_num=None, seg_idx=None):
    body = b''
    for i, h in enumerate(hints):
        last = i == len(hints) - 1
        body = body + pack_uint(h['type'] * 2 + (0 if last else 1), 1) + pack_uint(blen(h['value']), 1) + h['value']
    if xfer_num is not None:
        body = body + pack_uint(xfer_num, 4)
    if seg_idx is not None:
        body = body + pack_uint(seg_idx, 4)
    body = body + data
    flags = 0x8 if hints else 0
    return pack_uint(t, 1) + pack_uint(flags * (1 << 20) + blen(body), 3) + body
