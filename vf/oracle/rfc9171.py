''' Independent RFC 9171 (BPv7) bundle reader/writer and CRCs.  Imports nothing from the repository;
CBOR framing through vf.symcbor primitives (also independent of the repository). '''
from ..engine import SBuf, blen, is_sym, Unsupported, same_bytes
from .. import symcbor

F_IS_FRAGMENT, F_ADMIN, F_NO_FRAGMENT = 0x01, 0x02, 0x04
F_REQ_RECEPTION, F_REQ_FORWARD, F_REQ_DELIVERY, F_REQ_DELETION, F_REQ_TIME = 0x4000, 0x10000, 0x20000, 0x40000, 0x40
BF_REPLICATE = 0x01
T_PAYLOAD, T_PREVNODE, T_AGE, T_HOPCOUNT, T_BIB, T_BCB = 1, 6, 7, 10, 11, 12


class Malformed(Exception):
    pass


def decode_bundle(buf):
    ''' Octets -> dict(primary=dict, blocks=[dict], raw=...).  Raises Malformed on structural errors. '''
    n = blen(buf)
    if not bool(n >= 2):
        raise Malformed('too short')
    first = buf[0] if not isinstance(buf, SBuf) else buf[0]
    if not bool(first == 0x9f):
        raise Malformed('bundle is not an indefinite-length array')
    rd = symcbor._Rd(buf[1:])
    items = []
    while True:
        try:
            it = symcbor._dec(rd)
        except symcbor.CBORDecodeError as err:
            raise Malformed('cbor: %s' % err)
        if it is symcbor._BREAK:
            break
        items.append(it)
    if bool(blen(rd.buf) != 0):
        raise Malformed('octets after the break')
    if not items:
        raise Malformed('no primary block')
    return dict(primary=decode_primary(items[0]), blocks=[decode_canonical(b) for b in items[1:]])


def decode_primary(a):
    if not isinstance(a, list) or not (8 <= len(a) <= 11):
        raise Malformed('primary block is not an array of 8..11 items')
    p = dict(version=a[0], flags=a[1], crc_type=a[2], destination=a[3], source=a[4], report_to=a[5],
             create_ts=a[6], lifetime=a[7], items=len(a))
    rest = a[8:]
    if bool((p['flags'] & F_IS_FRAGMENT) != 0):
        if len(rest) < 2:
            raise Malformed('fragment without offset/total length')
        p['fragment_offset'], p['total_adu_length'] = rest[0], rest[1]
        rest = rest[2:]
    if bool(p['crc_type'] != 0):
        if len(rest) != 1:
            raise Malformed('crc type set but crc field count %d' % len(rest))
        p['crc'] = rest[0]
    elif rest:
        raise Malformed('crc type 0 with trailing items')
    return p


def decode_canonical(a):
    if not isinstance(a, list) or len(a) not in (5, 6):
        raise Malformed('canonical block is not an array of 5 or 6 items')
    b = dict(type=a[0], num=a[1], flags=a[2], crc_type=a[3], data=a[4], items=len(a))
    if bool(b['crc_type'] != 0):
        if len(a) != 6:
            raise Malformed('crc type set without crc field')
        b['crc'] = a[5]
    elif len(a) != 5:
        raise Malformed('crc type 0 with crc field')
    return b


def eid_text(e):
    ''' [scheme, ssp] -> text '''
    if e[0] == 1:
        if e[1] == 0:
            return 'dtn:none'
        return 'dtn:' + e[1]
    if e[0] == 2:
        return 'ipn:' + '.'.join(str(x) for x in e[1])
    raise Malformed('unknown EID scheme')


def eid_cbor(text):
    if text is None or text == 'dtn:none':
        return [1, 0]
    scheme, ssp = text.split(':', 1)
    if scheme == 'dtn':
        return [1, ssp]
    if scheme == 'ipn':
        return [2, [int(x) for x in ssp.split('.')]]
    raise ValueError(text)


# ------------------------------------------------------------------ encoder
def enc(x):
    return symcbor._enc(x, False)


def encode_primary(p, crc=None):
    a = [p.get('version', 7), p['flags'], p['crc_type'], eid_cbor(p['destination']), eid_cbor(p['source']),
         eid_cbor(p['report_to']), list(p['create_ts']), p['lifetime']]
    if bool((p['flags'] & F_IS_FRAGMENT) != 0):
        a += [p['fragment_offset'], p['total_adu_length']]
    if bool(p['crc_type'] != 0):
        a.append(crc if crc is not None else p.get('crc', bytes(2 if bool(p['crc_type'] == 1) else 4)))
    return a


def encode_canonical(b, crc=None):
    a = [b['type'], b['num'], b['flags'], b['crc_type'], b['data']]
    if bool(b['crc_type'] != 0):
        a.append(crc if crc is not None else b.get('crc', bytes(2 if bool(b['crc_type'] == 1) else 4)))
    return a


def encode_bundle(primary, blocks):
    out = b'\x9f' + enc(encode_primary(primary))
    for b in blocks:
        out = out + enc(encode_canonical(b))
    return out + b'\xff'


# ------------------------------------------------------------------ CRC (table driven, independent of the stand-in)
def _table(poly, width):
    t = []
    for i in range(256):
        c = i
        for _ in range(8):
            c = (c >> 1) ^ poly if c & 1 else c >> 1
        t.append(c)
    return t


_T16 = _table(0x8408, 16)
_T32 = _table(0x82F63B78, 32)


def crc16_x25(data):
    c = 0xFFFF
    for b in bytes(data):
        c = (c >> 8) ^ _T16[(c ^ b) & 0xFF]
    return c ^ 0xFFFF


def crc32c(data):
    c = 0xFFFFFFFF
    for b in bytes(data):
        c = (c >> 8) ^ _T32[(c ^ b) & 0xFF]
    return c ^ 0xFFFFFFFF


assert crc16_x25(b'123456789') == 0x906E
assert crc32c(b'123456789') == 0xE3069283


def crc_value(data, crc_type):
    ''' CRC of an encoded block (with zeroed CRC field): independent table-driven code for concrete octets;
    for symbolic octets the shared uninterpreted/bit-vector CRC of vf.symcrc (functional consistency). '''
    from .. import symcrc
    if not isinstance(data, SBuf):
        ind = crc16_x25(data) if crc_type == 1 else crc32c(data)
        # registering the application links it (functional consistency) to CRCs the implementation computed over
        # the same octets while they were still symbolic; the stand-in's value must agree with the independent one
        if crc_type == 1:
            v = symcrc.crc(data, 'x-25', 16, 0x8408, 0xFFFF, 0xFFFF)
        else:
            v = symcrc.crc(data, 'crc-32c', 32, 0x82F63B78, 0xFFFFFFFF, 0xFFFFFFFF)
        if v != ind:
            raise Unsupported('crcmod stand-in disagrees with the independent CRC')
        return ind
    if crc_type == 1:
        return symcrc.crc(data, 'x-25', 16, 0x8408, 0xFFFF, 0xFFFF)
    return symcrc.crc(data, 'crc-32c', 32, 0x82F63B78, 0xFFFFFFFF, 0xFFFFFFFF)


def crc_field(value, crc_type):
    from ..symstruct import pack_uint
    return pack_uint(value, 2 if crc_type == 1 else 4)


def seal_primary(p):
    ''' Primary block array with a valid CRC field (crc_type is concrete). '''
    ct = int(p['crc_type'])
    if ct == 0:
        return encode_primary(p)
    zero = encode_primary(p, crc=bytes(2 if ct == 1 else 4))
    return encode_primary(p, crc=crc_field(crc_value(enc(zero), ct), ct))


def seal_canonical(b):
    ct = int(b['crc_type'])
    if ct == 0:
        return encode_canonical(b)
    zero = encode_canonical(b, crc=bytes(2 if ct == 1 else 4))
    return encode_canonical(b, crc=crc_field(crc_value(enc(zero), ct), ct))


def sealed_bundle(primary, blocks):
    ''' Encoded bundle whose CRC fields are correct. '''
    out = b'\x9f' + enc(seal_primary(primary))
    for b in blocks:
        out = out + enc(seal_canonical(b))
    return out + b'\xff'


def check_crcs(c, bundle, prove, tag=''):
    ''' Obligations: every block of a decoded bundle carries the CRC of itself with the field zeroed,
    of the width its type demands; type 0 carries none. '''
    p = bundle['primary']
    blocks = [('primary', p, lambda crc: encode_primary_raw(p, crc))]
    for i, b in enumerate(bundle['blocks']):
        blocks.append(('block%d' % i, b, (lambda bb: (lambda crc: encode_canonical(dict(bb), crc=crc)))(b)))
    for (name, blk, mk) in blocks:
        ct = blk['crc_type']
        if is_sym(ct):
            from ..engine import cur
            ct = cur().concretize(ct.e, why='crc type')
        if ct == 0:
            prove('crc' not in blk, 'crc:absent-for-type-0%s' % tag, detail=name)
            continue
        width = 2 if ct == 1 else 4
        prove(blen(blk['crc']) == width, 'crc:field-width%s' % tag, detail=dict(block=name, got=blen(blk['crc'])))
        zero = mk(bytes(width))
        want = crc_field(crc_value(enc(zero), ct), ct)
        prove(same_bytes(blk['crc'], want), 'crc:value-correct%s' % tag, detail=dict(block=name, got=blk['crc'], want=want))


def encode_primary_raw(p, crc):
    ''' Re-encode a *decoded* primary block (EIDs already in CBOR form). '''
    a = [p['version'], p['flags'], p['crc_type'], p['destination'], p['source'], p['report_to'], list(p['create_ts']),
         p['lifetime']]
    if 'fragment_offset' in p:
        a += [p['fragment_offset'], p['total_adu_length']]
    a.append(crc)
    return a


def bpsec_cose_aad(bundle, sec_source, scope, target, addl_protected=b'', secblk=None):
    ''' External AAD of draft-ietf-bpsec-cose section 2.5.1, built from a *decoded* bundle: encoded security source,
    canonical scope map, then per scope entry in CBOR key order the primary block (whole encoding) or the
    metadata (type, number, flags) / data of a canonical block, then the additional protected parameters. '''
    out = enc(sec_source) + enc_canonical_map(scope)
    for k in sorted(scope, key=lambda k: (k < 0, abs(k))):
        fl = scope[k]
        if k == 0:
            if fl & 1:
                p = bundle['primary']
                out = out + enc(encode_primary_raw(p, p.get('crc')) if 'crc' in p else encode_primary_raw(p, None)[:-1])
            continue
        blk = target if k == -1 else secblk if k == -2 else [b for b in bundle['blocks'] if bool(b['num'] == k)][0]
        if fl & 1:
            out = out + enc(blk['type']) + enc(blk['num']) + enc(blk['flags'])
        if fl & 2:
            out = out + enc(blk['data'])
    return out + enc(addl_protected)


def enc_canonical_map(m):
    keys = sorted(m, key=lambda k: (k < 0, abs(k)))
    out = bytes([0xa0 + len(keys)])
    for k in keys:
        out = out + enc(k) + enc(m[k])
    return out


def read_secblock(data):
    ''' RFC 9172 abstract security block: CBOR sequence targets, context id, flags, [source], [parameters], results. '''
    from ..engine import SBuf, blen
    rd = symcbor._Rd(data if isinstance(data, SBuf) else SBuf(list(SBuf.of(data))))
    items = []
    while bool(blen(rd.buf) != 0):
        items.append(symcbor._dec(rd))
    targets, ctxid, flags = items[0], items[1], items[2]
    rest = items[3:]
    source = rest.pop(0)
    params = rest.pop(0) if bool((flags & 1) != 0) else []
    results = rest.pop(0)
    return dict(targets=targets, context=ctxid, flags=flags, source=source, params=params, results=results)
