''' Independent RFC 9174 (TCPCLv4) wire decoder/encoder and sequence automaton.
Imports nothing from the repository; works on bytes and on symbolic buffers. '''
from ..engine import SBuf, blen, is_sym, Unsupported
from ..symstruct import unpack_uint, pack_uint

XFER_SEGMENT, XFER_ACK, XFER_REFUSE, KEEPALIVE, SESS_TERM, MSG_REJECT, SESS_INIT = 1, 2, 3, 4, 5, 6, 7
F_END, F_START = 1, 2
MAGIC = b'dtn!'


class Incomplete(Exception):
    ''' The buffer ends inside the item. '''


class Malformed(Exception):
    pass


class Rd(object):
    def __init__(self, buf, pos=0):
        self.buf = buf
        self.used = 0

    def take(self, n):
        have = blen(self.buf)
        if bool(n > have):
            raise Incomplete()
        r = self.buf[:n]
        self.buf = self.buf[n:]
        self.used = self.used + n
        return r

    def uint(self, n):
        b = self.take(n)
        if isinstance(b, SBuf):
            return unpack_uint(b.lit_items())
        return int.from_bytes(b, 'big')


def decode_contact(rd):
    magic = rd.take(4)
    if not bool(magic == MAGIC):
        raise Malformed('magic')
    ver = rd.uint(1)
    if not bool(ver == 4):
        raise Malformed('version')
    flags = rd.uint(1)
    return dict(kind='contact', version=ver, flags=flags)


def decode_ext_items(buf):
    ''' Extension items inside a buffer of exactly the declared size. '''
    rd = Rd(buf)
    items = []
    while bool(blen(rd.buf) != 0):
        try:
            flags = rd.uint(1)
            typ = rd.uint(2)
            ln = rd.uint(2)
            val = rd.take(ln)
        except Incomplete:
            raise Malformed('extension item overruns its container')
        items.append(dict(flags=flags, type=typ, value=val))
    return items


def decode_message(rd):
    ''' One message; Incomplete if the buffer ends inside it. '''
    t = rd.uint(1)
    if is_sym(t):
        from ..engine import cur
        t = cur().concretize(t.e, cap=300, why='message type')
    if t == XFER_SEGMENT:
        flags = rd.uint(1)
        tid = rd.uint(8)
        ext = []
        if bool((flags & F_START) != 0):
            elen = rd.uint(4)
            ext = decode_ext_items(rd.take(elen))
        ln = rd.uint(8)
        data = rd.take(ln)
        return dict(kind='XFER_SEGMENT', flags=flags, transfer_id=tid, ext=ext, length=ln, data=data)
    if t == XFER_ACK:
        return dict(kind='XFER_ACK', flags=rd.uint(1), transfer_id=rd.uint(8), length=rd.uint(8))
    if t == XFER_REFUSE:
        return dict(kind='XFER_REFUSE', reason=rd.uint(1), transfer_id=rd.uint(8))
    if t == KEEPALIVE:
        return dict(kind='KEEPALIVE')
    if t == SESS_TERM:
        return dict(kind='SESS_TERM', flags=rd.uint(1), reason=rd.uint(1))
    if t == MSG_REJECT:
        # RFC 9174 section 4.9: Reason Code (U8) then Rejected Message Header (U8)
        return dict(kind='MSG_REJECT', reason=rd.uint(1), rejected=rd.uint(1))
    if t == SESS_INIT:
        ka = rd.uint(2)
        smru = rd.uint(8)
        tmru = rd.uint(8)
        nl = rd.uint(2)
        node = rd.take(nl)
        elen = rd.uint(4)
        ext = decode_ext_items(rd.take(elen))
        return dict(kind='SESS_INIT', keepalive=ka, segment_mru=smru, transfer_mru=tmru, node_id=node, ext=ext)
    raise Malformed('unknown message type %r' % (t,))


def decode_stream(buf, expect_contact=True, max_msgs=64):
    ''' Whole stream -> (items, trailing buffer).  Stops at the first incomplete item. '''
    out = []
    if expect_contact:
        rd = Rd(buf)
        try:
            out.append(decode_contact(rd))
        except Incomplete:
            return out, buf
        buf = rd.buf
    while bool(blen(buf) != 0):
        if len(out) > max_msgs:
            raise Unsupported('stream has more than %d messages' % max_msgs)
        rd = Rd(buf)
        try:
            out.append(decode_message(rd))
        except Incomplete:
            break
        buf = rd.buf
    return out, buf


# ------------------------------------------------------------------ encoder
def u(v, n):
    return pack_uint(v, n)


def enc_ext(items):
    out = b''
    for it in items:
        out = out + u(it['flags'], 1) + u(it['type'], 2) + u(blen(it['value']), 2) + it['value']
    return out


def encode(m):
    k = m['kind']
    if k == 'contact':
        return MAGIC + u(m.get('version', 4), 1) + u(m['flags'], 1)
    if k == 'XFER_SEGMENT':
        out = bytes([XFER_SEGMENT]) + u(m['flags'], 1) + u(m['transfer_id'], 8)
        if bool((m['flags'] & F_START) != 0):
            e = enc_ext(m.get('ext', []))
            out = out + u(blen(e), 4) + e
        return out + u(blen(m['data']), 8) + m['data']
    if k == 'XFER_ACK':
        return bytes([XFER_ACK]) + u(m['flags'], 1) + u(m['transfer_id'], 8) + u(m['length'], 8)
    if k == 'XFER_REFUSE':
        return bytes([XFER_REFUSE]) + u(m['reason'], 1) + u(m['transfer_id'], 8)
    if k == 'KEEPALIVE':
        return bytes([KEEPALIVE])
    if k == 'SESS_TERM':
        return bytes([SESS_TERM]) + u(m['flags'], 1) + u(m['reason'], 1)
    if k == 'MSG_REJECT':
        return bytes([MSG_REJECT]) + u(m['reason'], 1) + u(m['rejected'], 1)
    if k == 'SESS_INIT':
        e = enc_ext(m.get('ext', []))
        return (bytes([SESS_INIT]) + u(m['keepalive'], 2) + u(m['segment_mru'], 8) + u(m['transfer_mru'], 8)
                + u(blen(m['node_id']), 2) + m['node_id'] + u(blen(e), 4) + e)
    raise ValueError(k)


# ------------------------------------------------------------------ sequence automaton
def check_direction(c, msgs, peer_msgs, tag, prove=None):
    ''' RFC 9174 sequencing rules for one direction.  `msgs` are the decoded items this endpoint
    wrote, `peer_msgs` what the peer wrote (for the announced segment MRU and for ACK matching).
    Obligations go to c.prove. '''
    prove = prove or c.prove
    if not msgs:
        return
    prove(msgs[0]['kind'] == 'contact', 'wire:first-is-contact-header', detail=[m['kind'] for m in msgs[:3]])
    kinds = [m['kind'] for m in msgs]
    prove(kinds.count('contact') == 1, 'wire:one-contact-header', detail=kinds)
    if len(msgs) > 1:
        prove(kinds[1] == 'SESS_INIT', 'wire:second-is-sess-init', detail=kinds[:4])
    prove(kinds.count('SESS_INIT') <= 1, 'wire:one-sess-init', detail=kinds)
    prove(kinds.count('SESS_TERM') <= 1, 'wire:at-most-one-sess-term', detail=kinds)
    peer_init = [m for m in peer_msgs if m['kind'] == 'SESS_INIT']
    peer_mru = peer_init[0]['segment_mru'] if peer_init else None
    seen_term = False
    cur_tid = None       # transfer in progress in this direction
    cur_off = 0
    used_tids = []
    for ix, m in enumerate(msgs[2:]):
        k = m['kind']
        if k == 'SESS_TERM':
            seen_term = True
            continue
        if k != 'XFER_SEGMENT':
            continue
        fl = m['flags']
        start = bool((fl & F_START) != 0)
        end = bool((fl & F_END) != 0)
        if start:
            prove(not seen_term, 'wire:no-new-transfer-after-sess-term')
            prove(cur_tid is None, 'wire:start-only-when-no-transfer-in-progress')
            for t in used_tids:
                prove(m['transfer_id'] != t, 'wire:transfer-id-fresh', detail=dict(tid=m['transfer_id'], used=used_tids))
            used_tids.append(m['transfer_id'])
            cur_tid = m['transfer_id']
            cur_off = 0
            tl = [e for e in m['ext'] if e['type'] == 1]
            prove(len(tl) == 1, 'wire:start-has-transfer-length-ext', detail=m['ext'])
        else:
            prove(cur_tid is not None, 'wire:non-start-segment-continues-a-transfer')
            if cur_tid is not None:
                prove(m['transfer_id'] == cur_tid, 'wire:segment-same-transfer-id')
            prove(not m['ext'], 'wire:ext-only-on-start')
        if peer_mru is not None:
            prove(m['length'] <= peer_mru, 'wire:segment-within-peer-mru',
                  detail=dict(length=m['length'], mru=peer_mru))
        cur_off = cur_off + m['length']
        if end:
            cur_tid = None
    return


def check_transfers(c, msgs, tag='', prove=None):
    ''' Per transfer: Transfer-Length extension equals the sum of its segment lengths (complete transfers). '''
    prove = prove or c.prove
    cur = None
    for m in msgs:
        if m['kind'] != 'XFER_SEGMENT':
            continue
        if bool((m['flags'] & F_START) != 0):
            cur = dict(tl=[e for e in m['ext'] if e['type'] == 1], total=0)
        if cur is None:
            continue
        cur['total'] = cur['total'] + m['length']
        if bool((m['flags'] & F_END) != 0):
            if len(cur['tl']) == 1:
                v = cur['tl'][0]['value']
                tlv = unpack_uint(v.lit_items()) if isinstance(v, SBuf) else int.from_bytes(v, 'big')
                prove(blen(v) == 8, 'wire:transfer-length-ext-is-u64')
                prove(tlv == cur['total'], 'wire:transfer-length-ext-equals-total',
                      detail=dict(ext=tlv, total=cur['total']))
            cur = None


def check_acks(c, acks_side_msgs, segs_side_msgs, prove=None):
    ''' Every XFER_ACK written by one side answers, in order, a segment written by the other side:
    same flags, same transfer id, cumulative length of that transfer so far. '''
    prove = prove or c.prove
    acks = [m for m in acks_side_msgs if m['kind'] == 'XFER_ACK']
    segs = [m for m in segs_side_msgs if m['kind'] == 'XFER_SEGMENT']
    prove(len(acks) <= len(segs), 'wire:no-ack-without-segment', detail=dict(acks=len(acks), segs=len(segs)))
    cum = 0
    for j, s in enumerate(segs):
        if bool((s['flags'] & F_START) != 0):
            cum = 0
        cum = cum + s['length']
        if j < len(acks):
            a = acks[j]
            prove(a['flags'] == s['flags'], 'wire:ack-echoes-flags', detail=dict(ack=a['flags'], seg=s['flags']))
            prove(a['transfer_id'] == s['transfer_id'], 'wire:ack-transfer-id')
            prove(a['length'] == cum, 'wire:ack-cumulative-length', detail=dict(ack=a['length'], cum=cum))
