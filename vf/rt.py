''' Dispatchers the instrumented code calls instead of builtins (namespace __vf__). '''
import sys
import builtins as _b
from .engine import (SFloat, SInt, SBool, SBuf, SStr, Lit, Ref, Unsupported, is_sym, has_sym, blen, cur, mk_int,
                     Ctx, _z)
from . import symstruct
from .containers import VDict, VSet

MODULES = {'vf.symstruct': symstruct}
ENTERED = set()


def _late():
    from . import symcbor
    MODULES['vf.symcbor'] = symcbor
    from . import symbinascii
    MODULES['vf.symbinascii'] = symbinascii


def enter(name):
    if Ctx.cur is not None:
        ENTERED.add(name)


_PKT = []


def b_len(x):
    f = getattr(type(x), '__sym_len__', None)
    if f is not None:
        return f(x)
    if not _PKT:
        import scapy.packet
        _PKT.append(scapy.packet.Packet)
    if isinstance(x, _PKT[0]):
        # Packet.__len__ is len(bytes(self)); builtin len() cannot return a symbolic value
        return b_len(type(x).__bytes__(x))
    return len(x)


def b_int(*a, **k):
    if a:
        x = a[0]
        if isinstance(x, SInt):
            return x
        if isinstance(x, SBool):
            return x.__int__()
        if isinstance(x, SStr):
            return x.v
        if isinstance(x, SBuf):
            raise Unsupported('int() of symbolic buffer')
        if type(x) is SFloat:
            return x.havoc_int()
        if len(a) == 1 and not k and type(x) not in (int, str, bytes, float, bool):
            f = getattr(type(x), '__int__', None) or getattr(type(x), '__index__', None)
            if f is not None:
                r = f(x)
                if isinstance(r, (SInt, SBool)):
                    return b_int(r)
                if type(r) is int:
                    return r
    return int(*a, **k)


def b_float(*a):
    if a and is_sym(a[0]):
        raise Unsupported('float() of symbolic value')
    return float(*a)


def b_str(*a, **k):
    if a:
        x = a[0]
        if isinstance(x, SInt):
            return SStr(x)
        if isinstance(x, SStr):
            return x
        if isinstance(x, SBuf):
            return '<sym-buf>'
    return str(*a, **k)


def b_bytes(*a, **k):
    if a:
        x = a[0]
        if isinstance(x, SBuf):
            return x
        if type(x) is SByteArray:
            return x.buf
        if isinstance(x, SInt):
            raise Unsupported('bytes(n) with symbolic n')
        if not isinstance(x, (bytes, bytearray, str, int, memoryview)):
            f = getattr(type(x), '__bytes__', None)
            if f is not None:
                return f(x)
            if isinstance(x, (list, tuple)) and any(is_sym(i) for i in x):
                return SBuf.mk([Lit(list(x))])
    return bytes(*a, **k)


class SByteArray(object):
    ''' bytearray twin for reassembly buffers: zero-filled of symbolic size with
    slice assignment by (possibly symbolic) offsets; content tracked as pieces. '''

    def __init__(self, size):
        from .engine import BlobSrc
        self.size = size
        self.buf = SBuf.mk([Ref(BlobSrc('zero', size), 0, size)]) if (is_sym(size) or size) else b''

    @property
    def __class__(self):
        return bytearray

    def __sym_len__(self):
        return blen(self.buf)

    def __len__(self):
        return len(self.buf)

    def __setitem__(self, k, v):
        if not isinstance(k, slice) or k.step not in (None, 1):
            raise Unsupported('bytearray item assignment')
        start = 0 if k.start is None else k.start
        n = blen(self.buf)
        stop = n if k.stop is None else k.stop
        if bool(start > n):
            start = n
        if bool(stop > n):
            stop = n
        if bool(stop < start):
            stop = start
        head = self.buf[:start] if not (not is_sym(start) and start == 0) else b''
        tail = self.buf[stop:]
        self.buf = head + v + tail if not isinstance(head, bytes) or head else v + tail

    def __getitem__(self, k):
        return self.buf[k]

    def __bytes__(self):
        return self.buf

    def __eq__(self, o):
        return self.buf == (o.buf if isinstance(o, SByteArray) else o)

    def __repr__(self):
        return 'SByteArray(%r)' % (self.buf,)


def b_bytearray(*a, **k):
    if a:
        x = a[0]
        if isinstance(x, SInt):
            return SByteArray(x)
        if isinstance(x, SBuf):
            r = SByteArray(0)
            r.buf = x
            return r
    return bytearray(*a, **k)


def b_range(*a):
    if any(is_sym(x) for x in a):
        vals = [cur().concretize(_z(x), why='range') if is_sym(x) else x for x in a]
        return range(*vals)
    return range(*a)


def b_hash(x):
    return hash(x)


def b_sum(it, *start):
    return sum(it, *start)


def b_set(*a):
    if a:
        return set(*a)
    return VSet()


def b_dict(*a, **k):
    if a or k:
        return dict(*a, **k)
    return VDict()


def b_sorted(*a, **k):
    return sorted(*a, **k)


def b_map(*a):
    return map(*a)


def m_join(sep, it):
    ''' sep.join(it) where items may be symbolic buffers. '''
    if isinstance(sep, (bytes, bytearray, SBuf)):
        items = list(it)
        if any(isinstance(i, (SBuf, SByteArray)) for i in items) or isinstance(sep, SBuf):
            out = b''
            for ix, i in enumerate(items):
                if ix:
                    out = out + sep
                if isinstance(i, SByteArray):
                    i = i.buf
                out = out + i
            return out
        return sep.join(items)
    return sep.join(it)


def sl(obj, lo, hi, step):
    ''' obj[lo:hi:step] where the bounds may be symbolic and obj plain bytes. '''
    if (is_sym(lo) or is_sym(hi)) and type(obj) in (bytes, bytearray, memoryview):
        if len(obj) == 0:
            return b''
        return SBuf(list(SBuf.of(bytes(obj))))[lo:hi:step]
    return obj[lo:hi:step]


class SFmt(object):
    ''' Result of "template" % args with symbolic arguments: an opaque text value. '''

    def __init__(self, template, args):
        self.template = template
        self.args = args

    @property
    def __class__(self):
        return str

    def __eq__(self, o):
        if isinstance(o, SFmt) and type(o) is SFmt:
            return self.template == o.template and all(bool(a == b) for a, b in zip(self.args, o.args))
        return False

    def __ne__(self, o):
        return not self.__eq__(o)

    def __hash__(self):
        return hash(self.template)

    def __repr__(self):
        return 'SFmt(%r, %r)' % (self.template, self.args)

    def __str__(self):
        return '<sym-text>'


def fmt(template, args):
    if has_sym(args):
        return SFmt(template, args if isinstance(args, tuple) else (args,))
    return template % args


def contains(container, item):
    ''' `item in container` without hashing a symbolic item: membership in ordinary sets / dict keys /
    frozensets is decided by equality with each element (forking on symbolic equalities). '''
    if has_sym(item) and type(container) in (set, frozenset, dict):
        for k in container:
            try:
                if bool(k == item):
                    return True
            except TypeError:
                pass
        return False
    return item in container
