''' binascii twin: hexlify of a symbolic buffer yields a placeholder (only used in messages). '''
import binascii as _real
from .engine import SBuf


def hexlify(data, *a, **k):
    if isinstance(data, SBuf):
        return b'<sym-buf>'
    return _real.hexlify(data, *a, **k)


def __getattr__(name):
    return getattr(_real, name)
