''' cbor2 twin: pure-Python RFC 8949 encoder/decoder for the subset the repository uses,
working on symbolic ints (forking on the head-size class) and symbolic buffers.
Ordinary values are handed to the real cbor2 extension. '''
import enum
import cbor2 as _real
from .engine import (SInt, SBool, SBuf, SStr, Lit, Ref, Unsupported, is_sym, blen, cur, mk_int, Ctx)
from .symstruct import pack_uint, unpack_uint
from .containers import VDict
from .rt import SByteArray

CBORTag = _real.CBORTag
undefined = _real.undefined
CBORSimpleValue = _real.CBORSimpleValue
CBOREncodeError = _real.CBOREncodeError
CBORDecodeError = _real.CBORDecodeError
CBORDecodeEOF = _real.CBORDecodeEOF
CBOREncodeTypeError = getattr(_real, 'CBOREncodeTypeError', _real.CBOREncodeError)
CBORDecodeValueError = getattr(_real, 'CBORDecodeValueError', _real.CBORDecodeError)


def __getattr__(name):
    return getattr(_real, name)


def deep_sym(x, depth=0):
    if isinstance(x, (SInt, SBool, SBuf, SStr, SByteArray)):
        return True
    if depth > 12:
        return False
    if isinstance(x, (list, tuple)):
        return any(deep_sym(i, depth + 1) for i in x)
    if isinstance(x, dict):
        return any(deep_sym(k, depth + 1) or deep_sym(v, depth + 1) for k, v in x.items())
    if isinstance(x, CBORTag):
        return deep_sym(x.value, depth + 1)
    return False


# ------------------------------------------------------------------ encoder
def head(major, val):
    ''' Encoded head for a major type and an unsigned argument (int or SInt). '''
    if not is_sym(val):
        if val < 24:
            return bytes([(major << 5) | val])
        for ai, n in ((24, 1), (25, 2), (26, 4), (27, 8)):
            if val < 256 ** n:
                return bytes([(major << 5) | ai]) + val.to_bytes(n, 'big')
        raise CBOREncodeError('integer too large')
    if bool(val < 24):
        return SBuf.mk([Lit([(major << 5) + val])])
    for ai, n in ((24, 1), (25, 2), (26, 4), (27, 8)):
        if bool(val < 256 ** n):
            return bytes([(major << 5) | ai]) + pack_uint(val, n)
    raise CBOREncodeError('integer too large')


def head_size(val):
    return blen(head(0, val))


class _MiniEnc(object):
    ''' What a cbor2 `default` callback gets: an object with encode(). '''

    def __init__(self, canonical, default):
        self.out = b''
        self.canonical = canonical
        self.default = default

    def encode(self, obj):
        self.out = self.out + _enc(obj, self.canonical, self.default)


def _enc(x, canonical, default=None):
    if isinstance(x, SBool):
        x = bool(x)
    if x is None:
        return b'\xf6'
    if x is undefined:
        return b'\xf7'
    if x is True:
        return b'\xf5'
    if x is False:
        return b'\xf4'
    if isinstance(x, SInt):
        if bool(x >= 0):
            return head(0, x)
        return head(1, -1 - x)
    if isinstance(x, SByteArray):
        x = x.buf
    if isinstance(x, SBuf):
        return head(2, x.__sym_len__()) + x
    if isinstance(x, SStr):
        raise Unsupported('CBOR text string of symbolic int')
    if isinstance(x, (bytes, bytearray)):
        return head(2, len(x)) + bytes(x)
    if isinstance(x, bool):
        return b'\xf5' if x else b'\xf4'
    if isinstance(x, int):
        x = int(x)
        if x >= 0:
            return head(0, x)
        return head(1, -1 - x)
    if isinstance(x, str):
        u = x.encode('utf-8')
        return head(3, len(u)) + u
    if isinstance(x, (list, tuple)):
        out = head(4, len(x))
        for i in x:
            out = out + _enc(i, canonical, default)
        return out
    if isinstance(x, dict):
        items = [(_enc(k, canonical, default), _enc(v, canonical, default)) for k, v in x.items()]
        if canonical:
            if any(isinstance(k, SBuf) for k, _ in items):
                raise Unsupported('canonical map with symbolic keys')
            items.sort(key=lambda kv: (len(kv[0]), kv[0]))
        out = head(5, len(items))
        for k, v in items:
            out = out + k + v
        return out
    if isinstance(x, CBORTag):
        return head(6, x.tag) + _enc(x.value, canonical, default)
    if isinstance(x, CBORSimpleValue):
        return _real.dumps(x)
    if isinstance(x, float):
        return _real.dumps(x, canonical=canonical)
    if isinstance(x, (set, frozenset)):
        return head(6, 258) + _enc(list(x), canonical, default)
    if default is not None:
        e = _MiniEnc(canonical, default)
        default(e, x)
        return e.out
    raise CBOREncodeError('cannot serialize type %s' % type(x).__name__)


def dumps(obj, **kw):
    if not deep_sym(obj):
        return _real.dumps(obj, **kw)
    return _enc(obj, bool(kw.get('canonical')), kw.get('default'))


def dump(obj, fp, **kw):
    fp.write(dumps(obj, **kw))


# ------------------------------------------------------------------ decoder
class _Rd(object):
    ''' Cursor over a buffer. '''

    def __init__(self, buf):
        self.buf = buf
        self.read_octets = 0

    def take(self, n):
        ''' n octets (int or SInt) or CBORDecodeEOF. '''
        have = blen(self.buf)
        if bool(n > have):
            raise CBORDecodeEOF('premature end of stream (expected to read %s bytes)' % (n,))
        r = self.buf[:n]
        self.buf = self.buf[n:]
        self.read_octets = self.read_octets + n
        return r

    def octet(self):
        r = self.take(1)
        if isinstance(r, SBuf):
            return r.lit_items()[0]
        return r[0]


def _arg(rd, ai):
    ''' Argument value for additional-info ai (concrete int). '''
    if ai < 24:
        return ai
    if ai in (24, 25, 26, 27):
        n = 1 << (ai - 24)
        b = rd.take(n)
        if isinstance(b, SBuf):
            return unpack_uint(b.lit_items())
        return int.from_bytes(b, 'big')
    raise CBORDecodeError('invalid additional info %d' % ai)


_BREAK = object()


def _dec(rd, depth=0):
    ib = rd.octet()
    indefinite = False
    if is_sym(ib):
        c = cur()
        major = c.concretize((ib // 32).e, why='cbor major')
        low = ib % 32
        if bool(low < 24):
            ai = -1          # symbolic immediate argument
            val = low
        else:
            ai = c.concretize(low.e, why='cbor ai')
    else:
        major = ib >> 5
        ai = ib & 31
    if ai == -1:
        pass
    elif ai < 24:
        val = ai
    elif ai in (24, 25, 26, 27):
        val = _arg(rd, ai)
    elif ai == 31:
        val = None
        indefinite = True
    else:
        raise CBORDecodeError('invalid additional info')

    if major == 0:
        if indefinite:
            raise CBORDecodeError('indefinite uint')
        return val
    if major == 1:
        if indefinite:
            raise CBORDecodeError('indefinite nint')
        return -1 - val
    if major in (2, 3):
        if indefinite:
            out = b''
            while True:
                item = _dec(rd, depth + 1)
                if item is _BREAK:
                    break
                if major == 3 and isinstance(item, str):
                    item = item.encode('utf-8')
                out = out + item
            data = out
        else:
            data = rd.take(val)
        if major == 3:
            if isinstance(data, SBuf):
                raise Unsupported('CBOR text string with symbolic content')
            try:
                return data.decode('utf-8')
            except UnicodeDecodeError as err:
                raise CBORDecodeValueError('invalid utf-8') from err
        return data
    if major == 4:
        out = []
        if indefinite:
            while True:
                item = _dec(rd, depth + 1)
                if item is _BREAK:
                    break
                out.append(item)
            return out
        if is_sym(val):
            have = blen(rd.buf)
            if bool(val > have):
                raise CBORDecodeEOF('premature end of stream')
            val = cur().concretize(val.e, why='cbor array length')
        for _ in range(val):
            item = _dec(rd, depth + 1)
            if item is _BREAK:
                raise CBORDecodeError('unexpected break')
            out.append(item)
        return out
    if major == 5:
        out = VDict()
        if indefinite:
            while True:
                k = _dec(rd, depth + 1)
                if k is _BREAK:
                    break
                out[_hashable(k)] = _dec(rd, depth + 1)
            return out
        if is_sym(val):
            have = blen(rd.buf)
            if bool(val * 2 > have):
                raise CBORDecodeEOF('premature end of stream')
            val = cur().concretize(val.e, why='cbor map length')
        for _ in range(val):
            k = _dec(rd, depth + 1)
            out[_hashable(k)] = _dec(rd, depth + 1)
        return out
    if major == 6:
        if indefinite:
            raise CBORDecodeError('indefinite tag')
        inner = _dec(rd, depth + 1)
        if is_sym(val):
            raise Unsupported('symbolic CBOR tag number')
        return CBORTag(val, inner)
    # major 7
    if ai == -1:
        ai = val = cur().concretize(val.e, why='cbor simple')
    if ai == 31:
        return _BREAK
    if ai == 20:
        return False
    if ai == 21:
        return True
    if ai == 22:
        return None
    if ai == 23:
        return undefined
    if ai in (25, 26, 27):
        if is_sym(val):
            raise Unsupported('CBOR float with symbolic content')
        n = 1 << (ai - 24)
        return _real.loads(bytes([0xe0 | ai]) + int(val).to_bytes(n, 'big'))
    if is_sym(val):
        raise Unsupported('symbolic simple value')
    if ai == 24 and val < 32:
        raise CBORDecodeError('invalid simple value')
    return CBORSimpleValue(val)


def _hashable(k):
    if isinstance(k, list):
        return tuple(_hashable(i) for i in k)
    return k


def loads(data, **kw):
    if isinstance(data, SByteArray):
        data = data.buf
    if not isinstance(data, SBuf):
        return _real.loads(data, **kw)
    rd = _Rd(data)
    v = _dec(rd)
    if v is _BREAK:
        raise CBORDecodeError('unexpected break')
    return v


def load(fp, **kw):
    from .symio import SBytesIO, SBufferedReader
    raw = fp.raw if isinstance(fp, SBufferedReader) else fp
    if not isinstance(raw, SBytesIO):
        return _real.load(fp, **kw)
    rd = _Rd(raw.buf[raw.pos:])
    v = _dec(rd)
    if v is _BREAK:
        raise CBORDecodeError('unexpected break')
    raw.pos = raw.pos + rd.read_octets
    return v
