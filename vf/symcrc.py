''' CRC over symbolic buffers (called by the crcmod stand-in).

* all octets concrete                  -> the concrete CRC
* opaque content or symbolic octets    -> by default an uninterpreted result: a fresh symbolic value of the
  CRC width, the same value for syntactically identical inputs within a path (functional consistency);
* with EXACT[0] = True and only literal pieces, the CRC is computed bit-precisely over z3 bit-vectors in
  the solver-friendly form crc = (crc >> 1) ^ (POLY & -(crc & 1)) and returned as an int-sorted term.
'''
import z3
from .engine import SBuf, SInt, Lit, Ref, is_sym, cur, mk_int, _z

EXACT = [False]


def _key(data):
    parts = []
    for p in SBuf.of(data):
        if isinstance(p, Lit):
            parts.append(('L', tuple(z3.simplify(_z(i)).sexpr() if is_sym(i) else i for i in p.items)))
        else:
            parts.append(('R', id(p.src), z3.simplify(_z(p.start)).sexpr(), z3.simplify(_z(p.length)).sexpr()))
    return tuple(parts)


def byte_bv(x):
    ''' 8-bit vector for an octet value (int or SInt). '''
    if not is_sym(x):
        return z3.BitVecVal(int(x), 8)
    bv = getattr(x, 'bsrc', None)
    e = x.e
    # BV2Int(v) pattern from symbolic octets created as bit-vectors
    if z3.is_app(e) and e.decl().kind() == z3.Z3_OP_BV2INT and e.arg(0).size() == 8:
        return e.arg(0)
    return z3.Int2BV(e, 8)


def crc_bv(items, width, poly, init, xorout):
    crc = z3.BitVecVal(init, width)
    p = z3.BitVecVal(poly, width)
    for it in items:
        crc = crc ^ z3.ZeroExt(width - 8, byte_bv(it))
        for _ in range(8):
            crc = z3.LShR(crc, 1) ^ (p & -(crc & 1))
    return crc ^ z3.BitVecVal(xorout, width)


def _tokens(c, data):
    ''' Flatten to octet tokens; opaque pieces that are empty on this path are dropped. '''
    out = []
    for p in SBuf.of(data):
        if isinstance(p, Lit):
            out += [('b', i) for i in p.items]
        elif not c.must(p.length == 0):
            out.append(('r', p))
    return out


def struct_eq(ta, tb):
    ''' Octet equality of two token lists of the same shape as a z3 Bool (no forking);
    None when the shapes differ (no constraint is derived). '''
    if len(ta) != len(tb):
        return None
    conj = []
    for (ka, x), (kb, y) in zip(ta, tb):
        if ka != kb:
            return None
        if ka == 'b':
            if is_sym(x) or is_sym(y):
                conj.append(_z(x) == _z(y))
            elif x != y:
                return z3.BoolVal(False)
        else:
            if x.src is not y.src:
                return z3.BoolVal(False)
            conj.append(_z(x.start) == _z(y.start))
            conj.append(_z(x.length) == _z(y.length))
    return z3.And(*conj) if conj else z3.BoolVal(True)


def crc(data, name, width, poly, init, xorout):
    from crcmod.predefined import crc_concrete
    from .engine import Ctx
    if type(data).__name__ == 'SByteArray':
        data = data.buf
    c = Ctx.cur
    if c is None or c.mode != 'sym':
        return crc_concrete(bytes(data), width, poly, init, xorout)
    cache = c.__dict__.setdefault('_crc_cache', {})
    if cache.get('#path') != c.stats.paths:
        cache.clear()
        cache['#path'] = c.stats.paths
        cache['#apps'] = []
    toks = _tokens(c, data)
    concrete = all(k == 'b' and not is_sym(v) for (k, v) in toks)
    if concrete:
        val = crc_concrete(bytes(v for (_k, v) in toks), width, poly, init, xorout)
        term = z3.IntVal(val)
        result = val
    elif EXACT[0] and all(k == 'b' for (k, _v) in toks):
        # bit-precise: a fresh bit-vector defined (in the path condition, unsimplified) as the CRC of the octets
        bv = crc_bv([v for (_k, v) in toks], width, poly, init, xorout)
        var = z3.BitVec(c.fresh('crcbv_%s' % name.replace('-', '')), width)
        c._assume(var == bv)
        return SInt(z3.BV2Int(var))
    else:
        k = (name, _key(data))
        if k in cache:
            return cache[k]
        term = z3.Int(c.fresh('crc_%s' % name.replace('-', '')))
        c.inputs.append((str(term), term, 'crc'))
        c._assume(z3.And(term >= 0, term < 2 ** width))
        result = SInt(term)
        cache[k] = result
    # functional consistency with the other applications of the same CRC on this path
    for (nm, odata, ov, oconc) in cache['#apps']:
        if nm != name or (concrete and oconc):
            continue
        eq = struct_eq(toks, _tokens(c, odata))
        if eq is not None and not z3.is_false(eq):
            c._assume(z3.Implies(eq, term == ov))
    cache['#apps'].append((name, data, term, concrete))
    return result
