''' io.BytesIO / io.BufferedReader twins over symbolic buffers.
BytesIO(x) with an ordinary bytes argument that is never written a symbolic value
behaves as the real class (it *is* the real class until a symbolic value appears). '''
import io
import os
from .engine import SBuf, is_sym, blen, Unsupported
from .rt import SByteArray


class SBytesIO(object):
    def __init__(self, initial=b''):
        if isinstance(initial, SByteArray):
            initial = initial.buf
        if isinstance(initial, (bytearray, memoryview)):
            initial = bytes(initial)
        self.buf = initial
        self.pos = 0
        self.closed = False

    def seek(self, off, whence=0):
        if whence == 0:
            self.pos = off
        elif whence == 1:
            self.pos = self.pos + off
        elif whence == 2:
            self.pos = blen(self.buf) + off
        else:
            raise ValueError('whence')
        return self.pos

    def tell(self):
        return self.pos

    def read(self, n=None):
        if n is None or (not is_sym(n) and n < 0):
            r = self.buf[self.pos:]
            self.pos = blen(self.buf)
            return r
        r = self.buf[self.pos:self.pos + n]
        self.pos = self.pos + blen(r)
        return r

    def peek(self, n=1):
        return self.buf[self.pos:self.pos + n]

    def write(self, data):
        if isinstance(data, SByteArray):
            data = data.buf
        n = blen(data)
        total = blen(self.buf)
        if bool(self.pos == total):
            self.buf = self.buf + data
        else:
            if bool(self.pos > total):
                raise Unsupported('BytesIO write beyond end')
            self.buf = self.buf[:self.pos] + data + self.buf[self.pos + n:]
        self.pos = self.pos + n
        return n

    def getvalue(self):
        return self.buf

    def getbuffer(self):
        return self.buf

    def close(self):
        self.closed = True

    def __enter__(self):
        return self

    def __exit__(self, *a):
        self.close()

    def readable(self):
        return True

    def seekable(self):
        return True


class SBufferedReader(object):
    ''' Only what udpcl uses: peek(1), seek, tell, read. '''

    def __init__(self, raw, buffer_size=8192):
        self.raw = raw

    def peek(self, n=1):
        return self.raw.peek(n)

    def seek(self, off, whence=0):
        return self.raw.seek(off, whence)

    def tell(self):
        return self.raw.tell()

    def read(self, n=None):
        return self.raw.read(n)


def _symbolic_run():
    from .engine import Ctx
    return Ctx.cur is not None and Ctx.cur.mode == 'sym'


def BytesIO(initial=b''):
    if _symbolic_run():
        return SBytesIO(initial)
    return io.BytesIO(initial)


def BufferedReader(raw, *a, **k):
    if isinstance(raw, SBytesIO):
        return SBufferedReader(raw)
    return io.BufferedReader(raw, *a, **k)
