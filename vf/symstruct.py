''' struct module twin that understands symbolic integers and buffers.
Falls back to the real struct module for ordinary values. '''
import struct as _struct
import z3
from .engine import SInt, SBuf, Lit, Unsupported, is_sym, mk_int, cur, _z

error = _struct.error
calcsize = _struct.calcsize
_FMT = {'B': 1, 'H': 2, 'I': 4, 'L': 4, 'Q': 8, 'b': 1, 'h': 2, 'i': 4, 'l': 4, 'q': 8}


def _parse(fmt):
    if isinstance(fmt, bytes):
        fmt = fmt.decode()
    if not fmt or fmt[0] not in '!>':
        raise Unsupported('struct format %r with symbolic values' % fmt)
    out = []
    rep = ''
    for c in fmt[1:]:
        if c.isdigit():
            rep += c
            continue
        if c not in _FMT or c.islower():
            raise Unsupported('struct format %r with symbolic values' % fmt)
        out += [_FMT[c]] * (int(rep) if rep else 1)
        rep = ''
    return out


def pack_uint(v, n):
    ''' n-octet big-endian encoding of a symbolic or concrete uint (caller checks range). '''
    if not is_sym(v):
        return int(v).to_bytes(n, 'big')
    if v.bsrc is not None and len(v.bsrc) <= n:
        return SBuf.mk([Lit([0] * (n - len(v.bsrc)) + list(v.bsrc))])
    from .engine import bv_of
    bv = bv_of(v)
    if bv is not None and bv.size() <= 8 * n:
        # octets of a bit-vector backed value are extracted in bit-vector theory
        wide = z3.ZeroExt(8 * n - bv.size(), bv) if bv.size() < 8 * n else bv
        return SBuf.mk([Lit([SInt(z3.BV2Int(z3.simplify(z3.Extract(8 * i + 7, 8 * i, wide)))) for i in reversed(range(n))])])
    items = []
    for i in reversed(range(n)):
        e = z3.simplify((v.e / (256 ** i)) % 256)
        if z3.is_int_value(e):
            items.append(e.as_long())
        else:
            items.append(SInt(e, part=(v.e, i, n)))
    return SBuf.mk([Lit(items)])


def unpack_uint(items):
    ''' Big-endian uint of a list of octet values. '''
    n = len(items)
    first = items[0] if items else None
    if isinstance(first, SInt) and first.part is not None and first.part[1] == n - 1 and first.part[2] == n:
        v = first.part[0]
        ok = True
        for k, it in enumerate(items):
            if not (isinstance(it, SInt) and it.part is not None and it.part[1] == n - 1 - k
                    and it.part[2] == n and z3.eq(it.part[0], v)):
                ok = False
                break
        if ok:
            return mk_int(v)
    from .engine import bv_of
    bvs = [bv_of(it) if isinstance(it, SInt) else z3.BitVecVal(int(it), 8) for it in items]
    if items and all(b is not None and b.size() == 8 for b in bvs) and any(isinstance(it, SInt) for it in items):
        return SInt(z3.BV2Int(z3.simplify(z3.Concat(*bvs) if len(bvs) > 1 else bvs[0])), bsrc=tuple(items))
    r = 0
    for it in items:
        r = r * 256 + it
    if isinstance(r, SInt):
        r = SInt(r.e, bsrc=tuple(items))
    return r


def pack(fmt, *vals):
    if not any(is_sym(v) for v in vals):
        return _struct.pack(fmt, *vals)
    out = b''
    sizes = _parse(fmt)
    if len(sizes) != len(vals):
        raise error('pack expected %d items' % len(sizes))
    for sz, v in zip(sizes, vals):
        if is_sym(v):
            if not isinstance(v, SInt):
                v = mk_int(_z(v))
        if is_sym(v):
            from .engine import bv_of
            b = bv_of(v)
            if not (b is not None and b.size() <= 8 * sz):      # a w-bit vector is in range by construction
                if not bool((v >= 0) & (v < 256 ** sz)):
                    raise error('argument out of range')
            out = out + pack_uint(v, sz)
        else:
            out = out + _struct.pack('>' + {1: 'B', 2: 'H', 4: 'I', 8: 'Q'}[sz], v)
    return out


def unpack(fmt, data):
    if not isinstance(data, SBuf):
        return _struct.unpack(fmt, data)
    sizes = _parse(fmt)
    n = data.__sym_len__()
    if not bool(n == sum(sizes)):
        raise error('unpack requires a buffer of %d bytes' % sum(sizes))
    items = data.lit_items()
    res = []
    pos = 0
    for sz in sizes:
        res.append(unpack_uint(items[pos:pos + sz]))
        pos += sz
    return tuple(res)


class Struct(object):
    def __init__(self, fmt):
        self.format = fmt
        self.size = _struct.calcsize(fmt)
        self._real = _struct.Struct(fmt)

    def pack(self, *v):
        if not any(is_sym(x) for x in v):
            return self._real.pack(*v)
        return pack(self.format, *v)

    def unpack(self, d):
        if not isinstance(d, SBuf):
            return self._real.unpack(d)
        return unpack(self.format, d)

    def unpack_from(self, d, offset=0):
        return self.unpack(d[offset:offset + self.size])


def __getattr__(name):
    return getattr(_struct, name)
