''' Two (or one) real tcpcl.session.ContactHandler endpoints wired by socket stand-ins,
driven by a harness-side scheduler over the GLib stand-in (DESIGN 5.0, families T2/T1). '''
import socket as _socket
from gi.repository import GLib
import dbus.service
from .engine import Ctx, Cut, is_sym, blen, SBuf, cur


class Pipe(object):
    ''' One direction of the simulated TCP connection. '''

    def __init__(self, name):
        self.name = name
        self.buf = b''
        self.closed = False      # writer closed
        self.total = b''         # everything ever written (for the wire monitors)

    def __repr__(self):
        return '<pipe %s %r closed=%s>' % (self.name, self.buf, self.closed)


class FakeSock(object):
    def __init__(self, name, rx, tx, peername, world):
        self.name = name
        self.rx = rx
        self.tx = tx
        self.peername = peername
        self.open = True
        self.world = world
        self.recv_limit = None    # max octets per recv (harness-controlled chunking)
        self.recv_policy = 'all'  # 'all': everything pending; 'msg': one message per read
        self.seen_contact = False
        self.send_limit = None    # max octets accepted per send (back-pressure)

    def setblocking(self, b):
        pass

    def fileno(self):
        return 7 if self.open else -1

    def getpeername(self):
        return self.peername

    def recv(self, n):
        if not self.open:
            raise _socket.error('closed')
        have = blen(self.rx.buf)
        if not bool(have != 0):
            if self.rx.closed:
                return b''
            raise BlockingIOError('would block')
        lim = n
        if self.recv_policy == 'msg':
            # one protocol message (or the contact header) per read, found by the independent decoder
            from .oracle import rfc9174
            rd = rfc9174.Rd(self.rx.buf)
            try:
                if not self.seen_contact:
                    rfc9174.decode_contact(rd)
                    self.seen_contact = True
                else:
                    rfc9174.decode_message(rd)
                if bool(rd.used < lim):
                    lim = rd.used
            except (rfc9174.Incomplete, rfc9174.Malformed):
                pass
        if self.recv_limit is not None:
            rl = self.recv_limit(self, have) if callable(self.recv_limit) else self.recv_limit
            if bool(rl < lim):
                lim = rl
        data = self.rx.buf[:lim]
        self.rx.buf = self.rx.buf[blen(data):]
        return data

    def send(self, data):
        if not self.open:
            raise _socket.error('closed')
        if self.tx.closed:
            raise _socket.error('broken pipe')
        if self.send_limit is not None:
            sl = self.send_limit(self, blen(data)) if callable(self.send_limit) else self.send_limit
            data = data[:sl]
        self.tx.buf = self.tx.buf + data
        self.tx.total = self.tx.total + data
        return blen(data)

    def shutdown(self, how):
        self.tx.closed = True

    def close(self):
        self.open = False
        self.tx.closed = True
        self.world.closed_socks.append(self.name)


class World(object):
    ''' Endpoints A (active) and optionally B (passive). '''

    def __init__(self, cfg_a, cfg_b=None, start=True):
        import tcpcl.session as S
        self.S = S
        GLib.reset()
        dbus.service.reset()
        self.closed_socks = []
        self.ab = Pipe('A>B')
        self.ba = Pipe('B>A')
        self.sock_a = FakeSock('A', self.ba, self.ab, ('10.0.0.2', 4556), self)
        self.a = S.ContactHandler(
            hdl_kwargs=dict(config=cfg_a, sock=self.sock_a, toaddr=('10.0.0.2', 4556)),
            bus_kwargs=dict(conn=object(), object_path='/a'))
        self.b = None
        self.sock_b = None
        if cfg_b is not None:
            self.sock_b = FakeSock('B', self.ab, self.ba, ('10.0.0.1', 40000), self)
            self.b = S.ContactHandler(
                hdl_kwargs=dict(config=cfg_b, sock=self.sock_b, fromaddr=('10.0.0.1', 40000)),
                bus_kwargs=dict(conn=object(), object_path='/b'))
        self.steps = 0
        self.polling = set()
        self.log = []
        if start:
            self.a.start()
            if self.b is not None:
                self.b.start()

    # ---- scheduling
    def owner(self, src):
        f = src.func
        o = getattr(f, '__self__', None)
        if o is self.a:
            return 'A'
        if o is self.b:
            return 'B'
        return '?'

    def enabled(self, timers=False, sides=None):
        ''' Sources that may run now, in id order. '''
        out = []
        st = GLib.STATE
        for sid in sorted(st.sources):
            src = st.sources[sid]
            if sides is not None and self.owner(src) not in sides:
                continue
            if src.kind == 'idle':
                if sid not in self.polling:
                    out.append(src)
            elif src.kind == 'io':
                sock = src.chan
                if src.cond & GLib.IO_IN:
                    if sock.open and (bool(blen(sock.rx.buf) != 0) or sock.rx.closed):
                        out.append(src)
                elif src.cond & GLib.IO_OUT:
                    if sock.open:
                        out.append(src)
            elif src.kind == 'timeout' and timers:
                if bool(src.due <= st.now_ms):
                    out.append(src)
        return out

    def dispatch(self, src):
        self.steps += 1
        self.log.append((self.owner(src), src.kind, getattr(src.func, '__name__', '?')))
        r = GLib.dispatch(src.sid)
        if src.kind == 'idle' and r:
            # an idle callback that asks to be called again without having made progress is polling:
            # it is not re-dispatched until some other source has run
            self.polling.add(src.sid)
        else:
            self.polling.clear()
        return r

    def run(self, max_steps, choose_budget=0, timers=False, until=None, sides=None):
        ''' Run enabled sources until quiescence.  Default order: lowest source id first;
        with choose_budget > 0 the harness may deviate that many times (every deviation
        point and every alternative is explored). '''
        budget = choose_budget
        while True:
            if until is not None and until():
                return 'until'
            en = self.enabled(timers, sides)
            if not en:
                return 'quiescent'
            if self.steps >= max_steps:
                raise Cut('more than %d scheduler steps' % max_steps)
            ix = 0
            if budget > 0 and len(en) > 1:
                ix = cur().choose(len(en), 'sched')
                if ix != 0:
                    budget -= 1
            self.dispatch(en[ix])

    def advance_to_next_timer(self):
        ''' Move the virtual clock to the earliest timer deadline; returns that source or None. '''
        st = GLib.STATE
        best = None
        for sid in sorted(st.sources):
            src = st.sources[sid]
            if src.kind != 'timeout':
                continue
            if best is None or bool(src.due < best.due):
                best = src
        if best is not None:
            if bool(best.due > st.now_ms):
                st.now_ms = best.due
        return best

    def escaped(self):
        return list(GLib.STATE.escaped)

    def signals(self, obj=None, name=None):
        out = []
        for (kind, iface, nm, sig, args, o) in dbus.service.EMITTED:
            if kind != 'signal':
                continue
            if obj is not None and o is not obj:
                continue
            if name is not None and nm != name:
                continue
            out.append((nm, args))
        return out
